#!/usr/bin/env python3
"""regenerates MANIFEST.json from the table below (edit here, not the JSON)"""
import json, os
V = os.path.dirname(os.path.dirname(os.path.abspath(__file__)))
props = [json.loads(l) for l in open(os.path.join(V, 'properties.jsonl'))]
BK = 'shadow-symbolic execution of the LLVM IR of the real code (fpsym) + z3 per path class; plus ir2c (LLVM IR -> C) + CBMC bit-precise bounded checking of leaf kernels (1-D rules / meta tables / sorted index-set algebra) for all indexes, levels or set contents within the stated sizes and unwinding bound'
B = 'shadow-symbolic execution of the LLVM IR of the real code (fpsym) + z3 (QF_LRA / interval relaxation / QF_NRA) per path class, solver-enumerated path classes'
CLAIMS = {
 'C01': dict(engine='fpsym+ir2c', text='bounded symbolic execution of the real load/refine/construct/evaluate call tree with every model value symbolic; each reproduction obligation is decided by z3 for all value arrays of the path class',
             note='reals instead of IEEE doubles on symbolic data (tolerance 1e-9*(1+N)); dims<=4, depth<=4, outputs<=2, budgeted path classes for value-dependent refinement; Wavelet excluded; clang-14, fpsym, z3 trusted', tech=BK),
 'C20': dict(engine='fpsym', text='bounded symbolic execution of the real ParticleSwarm / ParticleSwarmState code: positions, velocities, random stream, objective values and domain verdicts are symbolic; z3 enumerates path classes (branch-tree search) and decides the book-keeping obligations for all inputs of each class',
             note='reals instead of doubles on symbolic data; particles<=2, dims<=2, <=3 iterations over two calls with one state edit between; budgeted path classes; concrete coefficients; private cache read with -fno-access-control; one open known finding (clearCache with a never-set best slot)', tech=B),
 'C02': dict(engine='fpsym+ir2c', text='symbolic execution of the real quadrature code on a polynomial with symbolic coefficients over exactly the declared space; one linear-arithmetic query decides exactness for all polynomials of that space against independent closed-form moments; integrate() == sum w_i y_i for all value arrays',
             note='reals instead of doubles on symbolic data, tolerance scaled by the conditioning sum|w_i||x_i^m|; dims<=3, depth<=6; listed alpha/beta; one affine transform; hand-written moment oracle; exotic and custom-tabulated rules excluded', tech=BK),
 'C03': dict(engine='fpsym+ir2c', text='evaluate(x) and the interpolation-weight sum run at a symbolic point x with symbolic coefficients of the whole declared function space; the polynomial residual is bounded by z3 over every path cell (interval relaxation in QF_LRA, QF_NRA fallback), cells enumerated by the solver',
             note='reals instead of doubles; degree <= 16 (1-D) / <= 8 (2-D); <= 200 cells per configuration; Wavelet with concrete affine functions; Fourier via cos/sin atoms reduced modulo sin^2+cos^2=1, its weights at symbolic x not claimed; clenshaw-curtis-zero space not checked', tech=BK),
 'C04': dict(engine='fpsym+ir2c', text='all routes run in one symbolic execution of the real code (values, coefficients and optionally the evaluation point symbolic); the difference of two routes is a polynomial residual that z3 bounds for all inputs of each path class (cells of local bases are classes)',
             note='reals instead of doubles on symbolic data; dims<=3, depth<=3; five history classes; symbolic x limited to <=40 cells per configuration; Wavelet: coefficient overwrite symbolic, model values concrete; support clause at concrete probe points (all-point version is engine K)', tech=BK),
 'C05': dict(engine='fpsym', text='the driver differentiates the expression of evaluate(x) exactly (polynomial, quotient, sqrt, cos/sin rules) and z3 bounds differentiate(x) minus that derivative over the interior of every path cell, for all values (or all members of the reproduced space) and, with transforms, the chain rule',
             note='reals instead of doubles; class interiors only (kinks and support edges are class boundaries); orders -1,1..5; dims<=3; <= 120 cells per configuration; Wavelet with concrete values; conformal maps excluded', tech=B),
 'C06': dict(engine='fpsym', text='binary write/read round trips of grids with symbolic values through the real stream code: shadows travel on a byte-offset tape, every observable of the restored grid is compared as an expression (z3), structure, byte identity of the second generation, stream consumption and behaviour of further operations are checked',
             note='binary format only (ASCII is an un-counted concrete sanity pass: libstdc++ number formatting is not encoded); stringstream entry point; seven history classes; dims<=3; Wavelet with concrete values; primitive-level CBMC harnesses for IO::* not built', tech=B),
 'C07': dict(engine='fpsym+ir2c', text='operation sequences of the real refinement/load/merge/clear API run with coordinate-tagged symbolic values, symbolic tolerances and scale corrections; value association is decided as symbol identity by z3, set invariants and the classic-criterion oracle are checked on every solver-constructed path class; the sorted multi-index set algebra underneath (merge, difference, binary search, removal, sort+unique, value merge of tsgIndexSets.cpp) is decided bit-precisely by CBMC for all sorted sets of the enumerated sizes',
             note='reals instead of doubles; sequences of <= 5 operations enumerated as configurations; dims<=3, depth<=3; budgeted classes; Wavelet with concrete values; classic oracle only for Local Polynomial; engine K: set sizes <= 3x3 (2-D), 4x4 (1-D), entries in a small range, unwinding assertions on', tech=BK),
 'C08': dict(engine='fpsym+ir2c', text='level-limit vectors are derived from symbolic reals so z3 enumerates (and certifies) all vectors in {-1,0,1,2}^d; on each class the real make/update/refine/candidate calls run, every point must lie within the limits in force, limits must persist, and every call must return within the time bound',
             note='solver-certified enumeration of a small discrete box (not a for-all over reals); dims 2 (3 once); <= 4 calls; 30 s termination bound; limits introduced later than make are only claimed when not below levels already present', tech=BK),
 'C09': dict(engine='fpsym', text='the real loadConstructedPoints is driven with the arrival order and batch cuts of the whole target set derived from symbolic priorities/flags and with symbolic values; z3 enumerates permutation x partition classes and decides value identity and equality with the one-batch surrogate for all values in each class',
             note='reals instead of doubles; targets are full grids with <= 21 points; classes complete only where evidence says so, else budgeted; Wavelet with concrete values; one open known finding (Global/Fourier out-of-order tensors)', tech=B),
 'C10': dict(engine='fpsym', text='transform bounds (a, width r, b := a + r), canonical point and values are symbolic; canonical and transformed grids run side by side and points, surrogate, Jacobian, supports, weights and integrals are compared as Laurent-polynomial identities decided by z3; getDomainInside is decided on solver-enumerated classes',
             note='reals instead of doubles; a in [-2,2], r in [0.1,4] (rate/scale boxes for Laguerre/Hermite); listed alpha/beta; conformal asin map excluded; 1e-9 band at the domain boundary not claimed', tech=B),
 'C11': dict(engine='fpsym', text='copies by all four routes of a source grid with symbolic values: every observable of the copy is decided to be the same expression as the restriction of the source (symbol identity, z3), then one side is mutated with fresh symbols and every observable of the other must keep its expression; ASan observes faults on the copied state',
             note='reals instead of doubles; dims<=2, outputs<=3 with the listed sub-ranges; three history classes; Wavelet with concrete values', tech=B),
 'C14': dict(engine='fpsym', text='a table of documented misuses is issued on real grids (all families, five states) with symbolic values: the exception type is observed on the real control flow, every observable afterwards must be the identical expression (z3), ASan observes out-of-bounds accesses on error paths, a valid follow-up must succeed',
             note='misuse arguments are the concrete ones of the table (the for-all is over grid values); garbage streams are short fixed strings; arbitrary byte tapes / all 32-bit scalars (engine A front-end harness) not built', tech=B),
 'C15': dict(engine='fpsym', text='bounded symbolic execution of the real SampleDREAM template with symbolic random stream over the closed [0,1], weights, pdf values and domain verdicts; z3 enumerates index-conversion / Metropolis / verdict classes (endpoint draws are constructed), ASan observes memory faults on each class representative, book-keeping identities are decided per class',
             note='reals instead of doubles on symbolic data, log/cos/sqrt uninterpreted; chains<=3, dims<=2, <=3 iterations; budgeted classes (complete only where evidence says so); acceptance draws assumed consumed in chain order after the batch evaluation', tech=B),
 'C17': dict(engine='trace-smt', text='the real sequential constructSurrogate runs under strace; crash position and torn-write length over the recorded file-system trace are z3 integers, the two-file recovery invariant is the assertion; the counterexample (sat) or a solver-chosen representative of every file-state class (unsat) is materialised on disk and the real function is restarted on it',
             note='crash model is an assumption (prefix semantics of truncated, unclosed files); sequential mode only; budgets 4-6, batch 1-2; one crash per history; two open known findings (backup never written; parked samples not counted on restart)',
             tech='native trace (strace) + z3 over (crash position, torn length) + replay of every class on the real code'),
 'C18': dict(engine='fpsym', text='schedule-independent clauses only: CandidateManager with symbolic candidate coordinates and solver-enumerated budgets through next/complete/re-assign sequences; real constructSurrogate (threads, one schedule per class) and threaded loadNeededValues with symbolic model values: budget, exactly-once, value association (symbol identity), reproduction',
             note='NOT claimed: data races, deadlock, lost wake-ups, same-thread-id concurrency over all interleavings (no engine for the threaded IR here); <=3 candidates, dims<=2, budget 1..8, jobs<=4', tech=B),
 'C19': dict(engine='fpsym', text='bounded symbolic execution of the real GradientDescent code with an SMT solver deciding every obligation for all callback values of each path class; classes enumerated by the solver up to a coverage certificate or the class budget',
             note='reals instead of IEEE doubles on symbolic data; dims<=2, cap<=4, concrete stepsize parameters; clang-14, fpsym pass/runtime, z3 trusted', tech=B),
}
NA = {
 'C12': 'quantifies over thread interleavings of whole-grid operations; no engine present can encode the IR-derived heap/FP code under CBMC\'s concurrency semantics (DESIGN.md 5)',
 'C13': 'needs OpenMP schedules inside libomp and FP reassociation in reductions; the pinned build has OpenMP off; not encodable with cbmc/z3 here (DESIGN.md 5)',
 'C16': 'compares two whole-program executions driven by libstdc++ string parsing and files; no symbolic quantity a solver could range over within reach (DESIGN.md 5)',
}
NOT_YET = 'check not built yet in this session (see DESIGN.md build order)'
m = {'version': 1, 'setup_cmd': './setup.sh',
     'hooks': {'guard': 'TASMANIAN_VERIF_HOOKS', 'enable': 'no source hooks are needed: engines attach at LLVM-IR level and harnesses use the public API (or -fno-access-control)',
               'baseline_off_cmd': 'cmake --build /repo/_build && ctest --test-dir /repo/_build -j8 --timeout 900', 'source_commits': [], 'add_only': True},
     'engines': [{'name': 'fpsym', 'path': 'engines/fpsym', 'serves_properties': sorted(k for k, v in CLAIMS.items() if 'fpsym' in v['engine']),
                  'kind_free_text': 'LLVM-14 pass + runtime: shadow-symbolic execution of doubles in the real code; z3 decides obligations per path class and certifies coverage of the input box'},
                 {'name': 'trace-smt', 'path': 'props/C17.py', 'serves_properties': ['C17'], 'kind_free_text': 'strace-recorded file-system trace of the real run + z3 over crash position and torn length + replay on materialised crash states'},
                 {'name': 'ir2c', 'path': 'engines/ir2c', 'serves_properties': sorted(k for k, v in CLAIMS.items() if 'ir2c' in v['engine']),
                  'kind_free_text': 'LLVM IR -> C translator + CBMC 6.11 bounded model checking of leaf kernels and small integer units'}],
     'checks': [], 'not_applicable': [], 'notes': 'see DESIGN.md; known findings in known_findings.json'}
for p in props:
    i = p['id']
    if i in CLAIMS:
        c = CLAIMS[i]
        m['checks'].append({'property_id': i, 'quick_cmd': './check %s --tier quick' % i, 'thorough_cmd': './check %s --tier thorough' % i, 'evidence_file': 'evidence/%s.json' % i,
                            'replay_cmd_template': './check %s --replay {path}' % i, 'engine': c['engine'],
                            'level_claimed': {'category': 'other', 'text': c['text'], 'design_ref': 'DESIGN.md section 4, ' + i}, 'level_note': c['note'], 'technique': c['tech']})
    else:
        m['not_applicable'].append({'property_id': i, 'reason': NA.get(i, NOT_YET)})
json.dump(m, open(os.path.join(V, 'MANIFEST.json'), 'w'), indent=1)
print('claimed', len(m['checks']), 'n/a', len(m['not_applicable']))
