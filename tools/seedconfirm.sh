#!/bin/bash
# usage: tools/seedconfirm.sh <name>  -- confirms a seeded change from /tmp/seed/<name> in its own worktree /tmp/wt/<name> (suite passes with it, demo fails with it and passes without it)
N=$1; WT=/tmp/wt/$N; S=/tmp/seed/$N; OUT=/verif/seeded/$N; mkdir -p $OUT
cd $WT || exit 9
git checkout -q -- . ; git apply $S/patch.diff || { echo "PATCH DOES NOT APPLY IN WORKTREE"; exit 8; }
cmake --build _b -j8 >/dev/null 2>&1; ctest --test-dir _b -j8 --timeout 900 2>&1 | tail -3 > $OUT/ctest_with_change.txt
bash $S/build_demo.sh $WT > $OUT/demo_with_change.txt 2>&1; echo "exit=$?" >> $OUT/demo_with_change.txt
git apply -R $S/patch.diff; cmake --build _b -j8 >/dev/null 2>&1
bash $S/build_demo.sh $WT > $OUT/demo_without_change.txt 2>&1; echo "exit=$?" >> $OUT/demo_without_change.txt
cp $S/patch.diff $S/demo.cpp $S/build_demo.sh $S/notes.md $OUT/ 2>/dev/null
echo "[$N] suite: $(grep 'tests passed' $OUT/ctest_with_change.txt) | demo with: $(tail -1 $OUT/demo_with_change.txt) | demo without: $(tail -1 $OUT/demo_without_change.txt)"
