#!/bin/bash
# usage: tools/seedcheck.sh <PROP> [name]  -- confirms a seeded change from /tmp/seed/<name> in its worktree /tmp/wt/<name>, then runs our checks against it
P=$1; N=${2:-$1}; WT=/tmp/wt/$N; S=/tmp/seed/$N; OUT=/verif/seeded/$N; mkdir -p $OUT
cd $WT || exit 9
git checkout -q -- . ; git apply $S/patch.diff || { echo "PATCH DOES NOT APPLY IN WORKTREE"; exit 8; }
echo "== [$N] existing suite with the change"; cmake --build _b -j16 >/dev/null 2>&1; ctest --test-dir _b -j8 --timeout 900 2>&1 | tail -3 | tee $OUT/ctest_with_change.txt
echo "== demo with the change (must fail)"; bash $S/build_demo.sh $WT > $OUT/demo_with_change.txt 2>&1; echo "exit=$?" | tee -a $OUT/demo_with_change.txt; tail -3 $OUT/demo_with_change.txt
git apply -R $S/patch.diff; cmake --build _b -j16 >/dev/null 2>&1
echo "== demo without the change (must pass)"; bash $S/build_demo.sh $WT > $OUT/demo_without_change.txt 2>&1; echo "exit=$?" | tee -a $OUT/demo_without_change.txt; tail -2 $OUT/demo_without_change.txt
git apply $S/patch.diff; cmake --build _b -j16 >/dev/null 2>&1
cp $S/patch.diff $S/demo.cpp $S/build_demo.sh $S/notes.md $OUT/ 2>/dev/null
cd /verif
git -C /repo apply $S/patch.diff || { echo "PATCH DOES NOT APPLY"; exit 8; }
for T in quick thorough; do
  echo "== ./check $P --tier $T against the change"; ./check $P --tier $T > $OUT/check_$T.txt 2>&1; echo "exit=$?" >> $OUT/check_$T.txt; grep -c "^VIOLATION" $OUT/check_$T.txt; grep "^VIOLATION" -A1 $OUT/check_$T.txt | head -4 | cut -c1-300; tail -2 $OUT/check_$T.txt | cut -c1-250
  if grep -q "^VIOLATION" $OUT/check_$T.txt; then break; fi
done
git -C /repo checkout -- . ; git -C /repo status --short | grep -v _build | head -3
