#!/bin/bash
# usage: tools/seedrun.sh <PROP> <name> <tier> [only-regex]  -- applies seeded/<name>/patch.diff to /repo, runs ./check, undoes the change
P=$1; N=$2; T=$3; OUT=/verif/seeded/$N
cd /verif
git -C /repo apply $OUT/patch.diff || { echo "PATCH DOES NOT APPLY"; exit 8; }
if [ -n "$4" ]; then ./check $P --tier $T --only "$4" > $OUT/check_$T.txt 2>&1; else ./check $P --tier $T > $OUT/check_$T.txt 2>&1; fi; echo "exit=$?" >> $OUT/check_$T.txt
git -C /repo checkout -- .
echo "[$N/$T] violations: $(grep -c '^VIOLATION' $OUT/check_$T.txt)"; grep "^VIOLATION" -A1 $OUT/check_$T.txt | head -4 | cut -c1-300; tail -2 $OUT/check_$T.txt | cut -c1-250
