import runner
from runner import Config
from common import *

META = {
    'explanation': 'Engine B (fpsym): every documented route to the same quantity is executed in one run of the real code with symbolic values / coefficients (and, in xmode 1, a symbolic evaluation point); the difference of two routes is '
                   'normalised to a polynomial residual and z3 decides that it cannot exceed the tolerance for any inputs of the path class (QF_LRA, interval relaxation, QF_NRA). Cells of piecewise bases are path classes enumerated by the solver.',
    'functions_encoded': ['TasmanianSparseGrid::{evaluate, evaluateBatch, getInterpolationWeights, evaluateHierarchicalFunctions, evaluateSparseHierarchicalFunctions, getHierarchicalSupport, integrate, getQuadratureWeights, integrateHierarchicalFunctions, differentiate, getDifferentiationWeights, setHierarchicalCoefficients, getHierarchicalCoefficients, getLoadedValues, mergeRefinement, beginConstruction, loadConstructedPoints}',
                          'per family: GridGlobal, GridSequence, GridLocalPolynomial, GridWavelet, GridFourier back-ends of those calls'],
    'assumptions': ['reals instead of doubles on symbolic data; tolerance 1e-9 x (number of symbols + sum |weights|)', 'Wavelet: model values concrete (GMRES), coefficient overwrite symbolic; wavelet interpolation/differentiation weights at a symbolic x outside the claim',
                    'Fourier with a symbolic evaluation point outside the claim (cos/sin of symbolic data are uninterpreted; the weight identities then need trigonometric reasoning z3 does not finish)', 'support clause checked at concrete probe points here (node +- radius, just outside); the for-all-points 1-D version is engine K'],
}


def configs(tier):
    cs = []
    def add(sp, hist, xmode, bs=None, **kw):
        kw.setdefault('max_paths', 1 if xmode != 1 else 10)
        cs.append(Config('%s-h%d-x%d%s' % (short(sp), hist, xmode, '-bs%d' % bs if bs else ''), 'C04', [sp, hist, xmode] + ([bs] if bs else []), **kw))
    if tier == 'quick':
        add(spec('localp', 'localp', 2, 1, 2, order=1), 0, 0); add(spec('localp', 'semi-localp', 2, 2, 2, order=2), 1, 0); add(spec('localp', 'localp-zero', 2, 1, 2, order=3), 4, 0)
        add(spec('localp', 'localp-boundary', 2, 1, 2, order=1), 2, 0); add(spec('localp', 'localp', 2, 1, 2, order=2), 3, 0); add(spec('localp', 'localp', 2, 1, 3, order=0), 0, 0)
        add(spec('localp', 'localp', 3, 1, 2, order=1), 8, 0); add(spec('localp', 'localp-zero', 3, 1, 2, order=2), 8, 0); add(spec('localp', 'localp', 2, 1, 3, order=1), 8, 0)   # direct parent missing, ancestor present
        for rule in LOCAL_RULES: add(spec('localp', rule, 3, 1, 2, order=2), 0, 0)   # complete hierarchy in 3-D: coefficients from the sparse-Kronecker path, every other route from the basis functions
        add(spec('localp', 'localp-zero', 3, 1, 3, order=-1), 0, 0)
        add(spec('localp', 'semi-localp', 3, 1, 3, order=2), 7, 0); add(spec('localp', 'localp-boundary', 3, 1, 3, order=1), 7, 0); add(spec('localp', 'localp', 3, 1, 2, order=0), 7, 0)   # regular-parent-closed, step-parent-open subsets in 3-D
        add(spec('global', 'clenshaw-curtis', 2, 1, 2), 0, 0); add(spec('global', 'leja', 2, 2, 2), 1, 0); add(spec('global', 'gauss-legendre', 2, 1, 2), 0, 0); add(spec('global', 'clenshaw-curtis', 2, 1, 2, transform=1), 3, 0)
        add(spec('global', 'clenshaw-curtis', 2, 2, 2, transform=1), 0, 0); add(spec('sequence', 'rleja', 2, 3, 2, transform=1), 0, 0); add(spec('localp', 'localp', 2, 2, 2, order=1, transform=1), 0, 0)   # several outputs x several dimensions x a non-cubic box: the layout of the Jacobian matters
        add(spec('localp', 'localp', 2, 1, 1, order=1), 0, 2, 32); add(spec('localp', 'semi-localp', 2, 1, 1, order=2), 4, 2, 64); add(spec('wavelet', 'wavelet', 2, 1, 1, order=1), 0, 2, 32); add(spec('sequence', 'rleja', 2, 1, 2), 0, 2, 33)   # batch sizes at the block size of the sparse assembly
        add(spec('sequence', 'rleja', 2, 1, 3), 0, 0); add(spec('sequence', 'leja', 2, 2, 2), 2, 0); add(spec('sequence', 'min-delta', 2, 1, 2), 3, 0)
        add(spec('fourier', 'fourier', 2, 1, 1), 0, 0); add(spec('fourier', 'fourier', 1, 1, 2), 4, 0)
        add(spec('wavelet', 'wavelet', 2, 1, 1, order=1), 4, 0); add(spec('wavelet', 'wavelet', 1, 1, 2, order=3), 0, 0)
        add(spec('localp', 'localp', 2, 1, 2, order=1), 0, 1); add(spec('localp', 'localp', 1, 1, 3, order=2), 4, 1); add(spec('sequence', 'rleja', 2, 1, 2), 0, 1); add(spec('global', 'clenshaw-curtis', 2, 1, 2), 0, 1)
    else:
        for bs in (1, 31, 32, 33, 64, 96):
            for rule in LOCAL_RULES: add(spec('localp', rule, 2, 1, 1, order=1), 0, 2, bs); add(spec('localp', rule, 1, 2, 2, order=2), 1, 2, bs)
            add(spec('localp', 'localp', 2, 1, 1, order=0), 0, 2, bs); add(spec('wavelet', 'wavelet', 1, 1, 2, order=1), 0, 2, bs); add(spec('wavelet', 'wavelet', 2, 1, 1, order=3), 0, 2, bs); add(spec('global', 'clenshaw-curtis', 2, 1, 1), 0, 2, bs); add(spec('fourier', 'fourier', 1, 1, 1), 0, 2, bs)
        for rule in LOCAL_RULES:
            for order in (0, 1, 2):
                if order == 0 and rule != 'localp': continue
                add(spec('localp', rule, 3, 1, 2, order=order), 8, 0); add(spec('localp', rule, 3, 2, 3, order=order), 8, 0); add(spec('localp', rule, 2, 1, 3, order=order), 8, 0)
            for order in (-1, 0, 1, 2, 3, 4):
                if order == 0 and rule != 'localp': continue
                for h in range(5): add(spec('localp', rule, 2, 1, 2, order=order), h, 0)
                add(spec('localp', rule, 3, 2, 2, order=order), 0, 0)
                add(spec('localp', rule, 2, 1, 2, order=order), 0, 1, max_paths=40); add(spec('localp', rule, 1, 1, 3, order=order), 4, 1, max_paths=40)
            add(spec('localp', rule, 2, 1, 3, order=1, transform=1, limits=1), 1, 0)
            for order in (0, 1, 2, 3): add(spec('localp', rule, 3, 2, 3 if order else 2, order=order), 7, 0); add(spec('localp', rule, 4, 1, 3 if order else 2, order=order), 7, 0)
        for rule in NESTED_GLOBAL[:8] + ['gauss-legendre', 'chebyshev', 'gauss-hermite-odd']:
            for h in (0, 1, 3) if rule in NESTED_GLOBAL else (0,):
                add(spec('global', rule, 2, 1, 2), h, 0)
            add(spec('global', rule, 2, 2, 2, transform=0 if 'hermite' in rule else 1), 0, 0); add(spec('global', rule, 2, 1, 2), 0, 1)
        for rule in SEQUENCE_RULES:
            for h in range(5): add(spec('sequence', rule, 2, 1, 2), h, 0)
            add(spec('sequence', rule, 2, 1, 3), 0, 1); add(spec('sequence', rule, 3, 2, 2, transform=1), 4, 0)
        for h in range(5): add(spec('fourier', 'fourier', 2, 1, 1), h, 0, timeout=300)
        add(spec('fourier', 'fourier', 1, 2, 2, transform=1), 0, 0)
        for order in (1, 3):
            for h in (0, 1, 4): add(spec('wavelet', 'wavelet', 2, 1, 1, order=order), h, 0)
            add(spec('wavelet', 'wavelet', 1, 1, 2, order=order), 4, 1, max_paths=30)
    return cs


def run(tier, seed, only=None):
    cs = filt(configs(tier), only)
    META['bounds'] = {'dims': '1..3', 'depth': '1..3', 'histories': 'fresh, pending refinement, merged refinement + coefficient overwrite, partial construction, coefficient overwrite, batch-loaded subset closed under regular parents but missing a step-parent (3-D/4-D)', 'x': 'concrete batch (nodes, interior, corner, support edges) and one symbolic point with <= 40 cells'}
    ks = [] if only else kconfigs_for(tier, (5,))
    META.setdefault('functions_encoded', []).append('RuleLocal::{getParent, getStepParent, getKid, getLevel, getNode, getSupport, getNumPoints, evalRaw, evalSupport} via ir2c + CBMC: support radius / evalSupport vs evalRaw for all 1-D points at dyadic probes (engine K, CBMC)')
    return runner.run_property('C04', cs, tier, seed, META, ks)
