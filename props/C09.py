import runner
from runner import Config
from common import *

META = {
    'explanation': 'Engine B (fpsym): the whole target set of a lower-complete / hierarchy-complete grid is delivered through the real loadConstructedPoints with the arrival ORDER given by symbolic priorities (the sort comparisons are path constraints) '
                   'and the BATCH CUTS by symbolic flags, values symbolic. z3 enumerates permutation x partition classes (branch-tree search, complete for small targets, budgeted otherwise) and decides per class that the stored values are the supplied symbols '
                   'and that the surrogate equals the one-batch surrogate for all values.',
    'functions_encoded': ['TasmanianSparseGrid::{beginConstruction, loadConstructedPoints, getCandidateConstructionPoints, finishConstruction, evaluateBatch, getLoadedValues, getLoadedPoints}',
                          'DynamicConstructorDataGlobal::{addNewNode, ejectCompleteTensor}', 'GridGlobal::loadConstructedPoint', 'GridSequence::loadConstructedPoint', 'GridLocalPolynomial::{loadConstructedPoint, expandGrid}', 'GridFourier::loadConstructedPoint', 'GridWavelet::loadConstructedPoint'],
    'assumptions': ['reals instead of doubles on symbolic data', 'target = full point set of the spec (lower complete), all samples delivered', 'Wavelet with concrete values (GMRES)', 'priorities/flags only select order and cuts: each class is one permutation x partition'],
}


def configs(tier):
    cs = []
    def add(sp, finish=1, seeds=(0,), single=0, tiny=0, **kw):
        kw.setdefault('strategy', 'tree'); kw.setdefault('solver_timeout_ms', 5000)
        for ps in seeds:   # several root permutations: the branch-tree search explores the neighbourhood of each
            cs.append(Config(short(sp) + ('-fin' if finish else '') + ('-r%d' % ps if ps else '') + ('-single' if single else '') + ('-tiny' if tiny else ''), 'C09', [sp, finish, ps, single] + (['vs=1e-13'] if tiny else []), **kw))
    if tier == 'quick':
        add(spec('sequence', 'rleja', 2, 1, 1), max_paths=40); add(spec('sequence', 'leja', 2, 1, 2), max_paths=25)
        add(spec('global', 'rleja', 2, 1, 1), max_paths=40); add(spec('global', 'clenshaw-curtis', 1, 1, 2), max_paths=25); add(spec('global', 'rleja', 2, 1, 2), max_paths=25)
        add(spec('localp', 'localp', 1, 1, 2, order=1), max_paths=40); add(spec('localp', 'semi-localp', 2, 1, 1, order=2), max_paths=25); add(spec('localp', 'semi-localp', 1, 1, 2, order=2), single=1, max_paths=130); add(spec('localp', 'localp', 1, 1, 2, order=2), single=1, max_paths=130); add(spec('localp', 'semi-localp', 2, 1, 2, order=2), single=1, seeds=(0, 1), max_paths=30); add(spec('localp', 'localp-boundary', 2, 1, 0, order=1), seeds=(0, 1), max_paths=30); add(spec('localp', 'localp', 2, 2, 1, order=2), max_paths=25); add(spec('localp', 'localp', 2, 2, 1, order=1), single=1, max_paths=25); add(spec('sequence', 'leja', 2, 2, 2), single=1, max_paths=25); add(spec('sequence', 'rleja', 1, 3, 3), single=1, max_paths=25)
        add(spec('localp', 'localp-zero', 1, 1, 2, order=3), max_paths=25); add(spec('localp', 'localp', 1, 1, 2, order=0), max_paths=25)
        add(spec('fourier', 'fourier', 1, 1, 1), max_paths=30); add(spec('fourier', 'fourier', 2, 1, 1), max_paths=15)
        add(spec('wavelet', 'wavelet', 1, 1, 1, order=1), max_paths=20)
        # values of magnitude 1e-13 (the obligations scale with them): absolute thresholds inside the linear surplus updates
        add(spec('localp', 'localp', 1, 1, 2, order=1), single=1, tiny=1, max_paths=60); add(spec('localp', 'localp', 2, 1, 2, order=1), single=1, tiny=1, max_paths=25, seeds=(0, 1, 2, 3)); add(spec('sequence', 'rleja', 2, 1, 1), single=1, tiny=1, max_paths=30); add(spec('global', 'rleja', 2, 1, 1), tiny=1, max_paths=20)
    else:
        for rule in LOCAL_RULES: add(spec('localp', rule, 2, 1, 1, order=1), single=1, tiny=1, max_paths=150, seeds=(0, 1)); add(spec('localp', rule, 1, 1, 2, order=2), single=1, tiny=1, max_paths=200)
        add(spec('sequence', 'leja', 2, 1, 2), single=1, tiny=1, max_paths=100); add(spec('global', 'clenshaw-curtis', 2, 1, 1), tiny=1, max_paths=60); add(spec('fourier', 'fourier', 1, 1, 1), tiny=1, max_paths=40)
        for rule in SEQUENCE_RULES:
            add(spec('sequence', rule, 2, 2, 2), single=1, max_paths=120, seeds=(0, 1)); add(spec('sequence', rule, 1, 3, 3), single=1, max_paths=100)
            add(spec('sequence', rule, 2, 1, 1), max_paths=200); add(spec('sequence', rule, 2, 1, 2), single=1, max_paths=200, seeds=(0, 1)); add(spec('sequence', rule, 2, 2, 2), max_paths=150); add(spec('sequence', rule, 2, 1, 3), max_paths=80); add(spec('sequence', rule, 3, 1, 2, limits=2), max_paths=80)
        for rule in ('rleja', 'leja', 'clenshaw-curtis', 'fejer2', 'rleja-odd', 'min-delta', 'rleja-double2', 'gauss-patterson'):
            add(spec('global', rule, 1, 1, 2), max_paths=150); add(spec('global', rule, 2, 1, 1), max_paths=150); add(spec('global', rule, 2, 1, 2), max_paths=100)
        add(spec('global', 'rleja', 2, 1, 3), max_paths=80); add(spec('global', 'rleja', 3, 1, 2), max_paths=80); add(spec('global', 'leja', 2, 2, 2, limits=2), max_paths=80)
        for rule in LOCAL_RULES: add(spec('localp', rule, 2, 2, 1, order=1), single=1, max_paths=100, seeds=(0, 1)); add(spec('localp', rule, 1, 3, 2, order=2), single=1, max_paths=100)
        for order in (2, 3): add(spec('localp', 'semi-localp', 2, 1, 2, order=order), single=1, seeds=(0, 1, 2, 3), max_paths=120); add(spec('localp', 'semi-localp', 3, 1, 1, order=order), single=1, seeds=(0, 1), max_paths=120); add(spec('localp', 'semi-localp', 2, 2, 2, order=order), seeds=(0, 1), max_paths=80)
        for rule in LOCAL_RULES:
            for order in (0, 1, 2, 3):
                if order == 0 and rule != 'localp': continue
                add(spec('localp', rule, 1, 1, 2, order=order), max_paths=2500, time_budget_s=900); add(spec('localp', rule, 1, 1, 2, order=order), single=1, max_paths=800); add(spec('localp', rule, 2, 1, 1, order=order), single=1, max_paths=300, seeds=(0, 1)); add(spec('localp', rule, 2, 1, 1, order=order), seeds=(0, 1, 2), max_paths=150); add(spec('localp', rule, 2, 2, 2, order=order), seeds=(0, 1, 2, 3), max_paths=60)
                if rule == 'localp-boundary': add(spec('localp', rule, 2, 1, 0, order=order), max_paths=400); add(spec('localp', rule, 2, 1, 2, order=order, limits=2), seeds=(0, 1, 2, 3), max_paths=80)
        add(spec('localp', 'localp', 2, 1, 2, order=1, limits=2), max_paths=80)
        add(spec('fourier', 'fourier', 1, 1, 1), max_paths=60); add(spec('fourier', 'fourier', 2, 1, 1), max_paths=60); add(spec('fourier', 'fourier', 1, 1, 2), max_paths=40); add(spec('fourier', 'fourier', 3, 1, 1), max_paths=30)
        add(spec('wavelet', 'wavelet', 1, 1, 1, order=1), max_paths=60); add(spec('wavelet', 'wavelet', 2, 1, 1, order=1), max_paths=30); add(spec('wavelet', 'wavelet', 1, 1, 1, order=3), max_paths=30)
    return cs


def run(tier, seed, only=None):
    cs = filt(configs(tier), only)
    META['bounds'] = {'target sets': 'full grids with 3..21 points', 'classes': 'permutation x partition classes, complete only where the evidence says coverage_complete', 'dims': '1..3'}
    return runner.run_property('C09', cs, tier, seed, META)
