import runner
from runner import Config
from common import *

META = {
    'explanation': 'Engine B (fpsym): grids reached by make / transform / load / refine / merge / coefficient overwrite / partial construction (values symbolic) are written with the real writeBinary through std::ostream::write and read back with readBinary; '
                   'the shadows of the doubles travel on a side tape keyed by (streambuf, byte offset), so every observable of the restored grid is an EXPRESSION that z3 compares with the original (symbol identity). Structure, order of points, limits, transforms, '
                   'construction flag, byte-identity of the second generation, exact consumption of the stream and the behaviour of further operations are checked on the class. The ASCII format is covered the same way since round 5: operator<<(double) / operator>>(double&) move the shadow on a token tape keyed by (streambuf, byte offset of the token), so a value written in one place and parsed in another, a missing or extra token, or a swapped pair shows up as a different expression; that the digits themselves survive (17 significant digits) is checked bit-for-bit on the explored representative of every class, in both formats.',
    'functions_encoded': ['TasmanianSparseGrid::{write, read, writeBinary, readBinary}', 'GridGlobal/GridSequence/GridLocalPolynomial/GridWavelet/GridFourier::write<binary> and stream constructors', 'MultiIndexSet / StorageSet / Data2D binary I/O', 'DynamicConstructorDataGlobal / SimpleConstructData binary I/O', 'IO::{writeNumbers, writeVector, readNumber, readVector, writeRule, readRule, writeFlag, readFlag}'],
    'assumptions': ['reals instead of doubles on symbolic data', 'std::stringstream is the stream (file entry points only open/close a stream)', 'ASCII: libstdc++ number formatting/parsing itself is not encoded (a stub moves the shadow between the token positions); exactness of the printed digits is a concrete bit-for-bit comparison per explored class, not a solver claim', 'Wavelet with concrete values'],
}


def configs(tier):
    cs = []
    def add(sp, hist, binary=1, mp=1):
        cs.append(Config('%s-h%d-%s' % (short(sp), hist, 'bin' if binary else 'ascii'), 'C06', [sp, hist, binary], max_paths=mp, strategy='tree' if mp > 1 else 'global'))
    fams = [spec('localp', 'localp', 2, 2, 2, order=1, limits=2), spec('global', 'clenshaw-curtis', 2, 2, 2, transform=1), spec('sequence', 'rleja', 2, 1, 2, limits=2), spec('fourier', 'fourier', 2, 1, 1), spec('wavelet', 'wavelet', 2, 1, 1, order=1)]
    if tier == 'quick':
        for i, sp in enumerate(fams):
            for h in (1, 3, (2, 6, 0, 5, 2)[i]): add(sp, h); add(sp, h, 0)
            add(sp, (8, 2, 8, 8, 6)[i], 0)
        add(spec('localp', 'localp', 2, 1, 1, order=1), 4); add(spec('global', 'gauss-legendre', 2, 1, 2), 1); add(spec('localp', 'localp', 2, 0, 2, order=1), 0); add(spec('global', 'leja', 2, 1, 2), 5); add(spec('global', 'gauss-jacobi', 2, 1, 2, alpha=0.5, beta=1.5), 1); add(spec('global', 'gauss-hermite', 1, 1, 3, alpha=2.0), 1); add(spec('global', 'gauss-gegenbauer', 2, 2, 1, alpha=1.5), 2)
        add(spec('localp', 'semi-localp', 2, 1, 2, order=2), 1, 0); add(spec('sequence', 'leja', 2, 1, 2), 3, 0)
        for r in ('localp-boundary', 'localp-zero', 'semi-localp'): add(spec('localp', r, 2, 1, 2, order=2 if r == 'semi-localp' else 1), 1)   # every local rule through the binary rule code
        add(spec('global', 'clenshaw-curtis', 2, 1, 1), 9, 1, 60); add(spec('sequence', 'rleja', 2, 1, 1), 9, 1, 50); add(spec('localp', 'localp', 2, 1, 1, order=1), 9, 1, 50); add(spec('fourier', 'fourier', 2, 1, 1), 9, 1, 40); add(spec('fourier', 'fourier', 2, 1, 1), 2); add(spec('fourier', 'fourier', 2, 1, 1), 8); add(spec('global', 'clenshaw-curtis', 2, 1, 1), 8); add(spec('sequence', 'rleja', 2, 1, 1), 8); add(spec('wavelet', 'wavelet', 1, 1, 1, order=1), 9, 1, 30)   # solver-chosen histories before the round trip
        add(spec('global', 'clenshaw-curtis', 2, 1, 2), 7); add(spec('sequence', 'rleja', 2, 1, 2), 7); add(spec('fourier', 'fourier', 2, 1, 1), 7); add(spec('localp', 'localp', 2, 1, 2, order=1), 7)
        # ASCII format (token tape): deepest-first construction, parametrised rules, every local rule, empty grid, zero outputs, solver-chosen histories
        add(spec('global', 'clenshaw-curtis', 2, 1, 2), 7, 0); add(spec('sequence', 'rleja', 2, 1, 2), 7, 0); add(spec('fourier', 'fourier', 2, 1, 1), 7, 0); add(spec('localp', 'localp', 2, 1, 2, order=1), 7, 0)
        add(spec('localp', 'localp', 2, 1, 1, order=1), 4, 0); add(spec('localp', 'localp', 2, 0, 2, order=1), 0, 0); add(spec('global', 'gauss-jacobi', 2, 1, 2, alpha=0.5, beta=1.5), 1, 0); add(spec('global', 'gauss-hermite', 2, 1, 2, alpha=1.0), 1, 0); add(spec('global', 'leja', 2, 1, 2), 5, 0)
        for r in ('localp-boundary', 'localp-zero'): add(spec('localp', r, 2, 1, 2, order=1), 2, 0)
        add(spec('global', 'clenshaw-curtis', 2, 1, 1), 9, 0, 40); add(spec('localp', 'localp', 2, 1, 1, order=1), 9, 0, 40); add(spec('fourier', 'fourier', 2, 1, 1), 9, 0, 30)
    else:
        fams += [spec('localp', r, 2, 2, 2, order=o, transform=(o % 2)) for r in LOCAL_RULES for o in (-1, 0, 1, 2, 3) if not (o == 0 and r != 'localp')]
        fams += [spec('global', r, 2, 2, 2, limits=(2 if r == 'leja' else 0)) for r in ('leja', 'fejer2', 'rleja-odd', 'gauss-patterson', 'min-delta', 'gauss-legendre', 'chebyshev-odd')] + [spec('global', 'gauss-hermite', 2, 1, 2, alpha=1.0), spec('global', 'gauss-jacobi', 2, 1, 2, alpha=0.5, beta=1.5),
                 spec('global', 'clenshaw-curtis', 3, 1, 1, 'iptotal', aniso=1), spec('global', 'clenshaw-curtis', 2, 0, 2)]
        fams += [spec('sequence', r, 2, 2, 2, transform=1) for r in SEQUENCE_RULES] + [spec('fourier', 'fourier', 1, 2, 2, transform=1), spec('wavelet', 'wavelet', 1, 2, 2, order=3), spec('fourier', 'fourier', 2, 0, 1)]
        for sp in (spec('global', 'clenshaw-curtis', 2, 1, 1), spec('global', 'leja', 2, 2, 1, limits=2), spec('sequence', 'rleja', 2, 1, 1), spec('sequence', 'min-delta', 2, 2, 2, transform=1), spec('fourier', 'fourier', 2, 1, 1), spec('localp', 'localp', 2, 1, 1, order=1),
                   spec('localp', 'semi-localp', 2, 2, 1, order=2), spec('localp', 'localp-boundary', 1, 1, 2, order=1), spec('wavelet', 'wavelet', 1, 1, 1, order=1)):
            add(sp, 9, 1, 343)
        for sp in fams:
            for h in range(9): add(sp, h); add(sp, h, 0)
    return cs


def run(tier, seed, only=None):
    cs = filt(configs(tier), only)
    META['bounds'] = {'dims': '1..3', 'outputs': '0..2', 'histories': '8 classes incl. deepest-first construction (complete-but-blocked tensors), empty grid, zero outputs, pending refinement, merged refinement + coefficient overwrite, active construction with parked samples, conformal map', 'format': 'binary and ASCII (stringstream)'}
    return runner.run_property('C06', cs, tier, seed, META)
