import runner
from runner import Config
from common import *

META = {
    'explanation': 'Engine B (fpsym): the transform bounds are SYMBOLIC (a and the width r >= 0.1 per dimension, b := a + r computed in the harness; Gauss-Laguerre rate b; Gauss-Hermite b := s^2) together with the canonical point c and the model values. A canonical and a transformed '
                   'grid run in the same execution; points, surrogate values, Jacobians, supports, weights and integrals of the transformed grid are normalised to Laurent polynomials in (a, r, c, values) and compared by z3 with the documented map/factor applied to the canonical grid. '
                   'The getDomainInside() predicate is decided on solver-enumerated classes of (a, b, x).',
    'functions_encoded': ['TasmanianSparseGrid::{setDomainTransform, getPoints, mapCanonicalToTransformed, mapTransformedToCanonical, formCanonicalPoints, getQuadratureScale, getQuadratureWeights, integrate, integrateHierarchicalFunctions, evaluate, differentiate, getHierarchicalSupport, getDomainInside}'],
    'assumptions': ['reals instead of doubles on symbolic data', 'a in [-2,2], width in [0.1,4] (Laguerre rate in [0.5,3], Hermite scale s in [0.5,2])', 'Jacobi-type exponents: the listed alpha, beta', 'conformal (asin) map outside this check: its inverse is a Newton iteration on symbolic data',
                    'getDomainInside: a 1e-9 band around the boundary is not claimed'],
}


def configs(tier):
    cs = []
    def add(sp, mode=0, mp=1, **kw):
        kw.setdefault('solver_timeout_ms', 30000)
        cs.append(Config('%s-m%d' % (short(sp), mode), 'C10', [sp, mode], max_paths=mp, **kw))
    if tier == 'quick':
        add(spec('global', 'clenshaw-curtis', 2, 1, 2)); add(spec('global', 'gauss-legendre', 1, 1, 3)); add(spec('global', 'gauss-laguerre', 2, 1, 2, alpha=1.0)); add(spec('global', 'gauss-hermite', 1, 1, 3, alpha=0.0)); add(spec('global', 'gauss-chebyshev2', 1, 1, 2))
        add(spec('global', 'gauss-jacobi', 1, 1, 2, alpha=1.0, beta=2.0)); add(spec('sequence', 'rleja', 2, 2, 2)); add(spec('fourier', 'fourier', 1, 1, 1)); add(spec('localp', 'localp', 2, 1, 2, order=1), 0, 12); add(spec('wavelet', 'wavelet', 1, 1, 1, order=1), 0, 6)
        # every rule with a branch of its own in the transform code (map, inverse map, Jacobian of differentiate, quadrature factor): the -odd twins and the parametrised families
        for rule, a, b in (('gauss-hermite-odd', 1.0, None), ('gauss-laguerre-odd', 0.5, None), ('gauss-chebyshev1', None, None), ('gauss-chebyshev1-odd', None, None), ('gauss-chebyshev2-odd', None, None),
                           ('gauss-gegenbauer', 0.5, None), ('gauss-gegenbauer-odd', 1.0, None), ('gauss-jacobi-odd', 0.5, 1.0), ('gauss-hermite', 2.0, None), ('gauss-legendre-odd', None, None), ('chebyshev-odd', None, None)):
            add(spec('global', rule, 2 if 'hermite' in rule else 1, 1, 2, alpha=a, beta=b))
        add(spec('global', 'clenshaw-curtis', 2, 1, 3), 2); add(spec('sequence', 'rleja', 2, 2, 3), 2); add(spec('localp', 'localp', 2, 1, 3, order=1), 2); add(spec('global', 'gauss-legendre', 1, 1, 3), 2); add(spec('wavelet', 'wavelet', 1, 2, 2, order=1), 2); add(spec('fourier', 'fourier', 1, 1, 1), 2)   # conformal map composed with a linear transform
        add(spec('global', 'clenshaw-curtis', 2, 1, 1), 1, 40, strategy='tree'); add(spec('global', 'gauss-laguerre', 1, 1, 1), 1, 12, strategy='tree'); add(spec('fourier', 'fourier', 1, 1, 1), 1, 12, strategy='tree')
    else:
        for rule in NESTED_GLOBAL[:9] + NON_NESTED:
            abl = {'gauss-gegenbauer': [(1.0, None), (0.5, None)], 'gauss-gegenbauer-odd': [(2.0, None)], 'gauss-jacobi': [(1.0, 2.0), (0.5, 0.5), (0.5, 1.0)], 'gauss-jacobi-odd': [(0.0, 1.0)], 'gauss-laguerre': [(0.0, None), (1.0, None), (0.5, None)],
                   'gauss-laguerre-odd': [(2.0, None)], 'gauss-hermite': [(0.0, None), (2.0, None), (1.0, None)], 'gauss-hermite-odd': [(0.0, None)]}.get(rule, [(None, None)])
            for (a, b) in abl:
                add(spec('global', rule, 1, 1, 3, alpha=a, beta=b)); add(spec('global', rule, 2, 2, 2, alpha=a, beta=b))
            add(spec('global', rule, 2, 1, 1), 1, 60, strategy='tree')
        for rule in SEQUENCE_RULES: add(spec('sequence', rule, 2, 2, 3)); add(spec('sequence', rule, 3, 1, 2)); add(spec('sequence', rule, 2, 1, 4), 2)
        for rule in ('clenshaw-curtis', 'fejer2', 'leja', 'gauss-patterson', 'gauss-legendre', 'chebyshev', 'gauss-chebyshev2', 'gauss-gegenbauer'): add(spec('global', rule, 2, 1, 3, alpha=(1.0 if 'gegen' in rule else None)), 2); add(spec('global', rule, 1, 2, 4, alpha=(1.0 if 'gegen' in rule else None)), 2)
        for rule in LOCAL_RULES: add(spec('localp', rule, 2, 1, 3, order=1), 2); add(spec('localp', rule, 1, 1, 4, order=2), 2)
        add(spec('wavelet', 'wavelet', 1, 1, 2, order=1), 2); add(spec('wavelet', 'wavelet', 2, 2, 1, order=3), 2); add(spec('wavelet', 'wavelet', 1, 2, 3, order=3), 2)
        add(spec('fourier', 'fourier', 1, 2, 1)); add(spec('fourier', 'fourier', 2, 1, 1)); add(spec('fourier', 'fourier', 2, 1, 1), 1, 60, strategy='tree')
        for rule in LOCAL_RULES:
            for order in (0, 1, 2, 3):
                if order == 0 and rule != 'localp': continue
                add(spec('localp', rule, 1, 1, 3, order=order), 0, 40); add(spec('localp', rule, 2, 2, 2, order=order), 0, 60)
        for order in (1, 3): add(spec('wavelet', 'wavelet', 1, 1, 2, order=order), 0, 40); add(spec('wavelet', 'wavelet', 2, 1, 1, order=order), 0, 40)
    return cs


def run(tier, seed, only=None):
    cs = filt(configs(tier), only)
    META['bounds'] = {'dims': '1..3', 'depth': '1..3', 'transform parameters': 'a in [-2,2], r in [0.1,4] (or rate/scale boxes)', 'cells per configuration': '<= 60'}
    return runner.run_property('C10', cs, tier, seed, META)
