import runner
from runner import Config
from common import *

META = {
    'explanation': 'Engine B (fpsym): a source grid with symbolic values is copied by copy construction, assignment, copyGrid(src) and copyGrid(src, begin, end); every observable of the copy must be the SAME EXPRESSION (symbol identity decided by z3) as the '
                   'restriction of the source to the output range, then one side is mutated with fresh symbols (load/overwrite, refinement, finishing construction, new transform) and every observable of the other side must still be its old expression - shared state would '
                   'show up as a changed symbol. Structure (points in order, counts, limits, flags, candidates) is checked on the class.',
    'functions_encoded': ['TasmanianSparseGrid::{copy constructor, operator=, copyGrid (both forms)}', 'per-family copy constructors with output ranges (GridGlobal, GridSequence, GridLocalPolynomial, GridWavelet, GridFourier)', 'StorageSet / Data2D splitting', 'DynamicConstructorDataGlobal / SimpleConstructData copies'],
    'assumptions': ['reals instead of doubles on symbolic data', 'Wavelet with concrete values', 'histories: loaded; loaded + pending refinement; active construction with loaded and parked samples'],
}


def configs(tier):
    cs = []
    def add(sp, hist, how, b=0, e=0, mut=0, **kw):
        kw.setdefault('max_paths', 1)
        cs.append(Config('%s-h%d-c%d-%d_%d-m%d' % (short(sp), hist, how, b, e, mut), 'C11', [sp, hist, how, b, e, mut], **kw))
    if tier == 'quick':
        add(spec('localp', 'localp', 2, 3, 2, order=1, limits=2), 1, 3, 1, 3, 0); add(spec('localp', 'semi-localp', 2, 2, 2, order=2), 2, 0, mut=1); add(spec('localp', 'localp', 2, 2, 1, order=1), 2, 3, 1, 2, 0)
        add(spec('global', 'clenshaw-curtis', 2, 3, 2, transform=1), 1, 3, 0, 2, 1); add(spec('global', 'leja', 2, 2, 2), 2, 1, mut=0); add(spec('global', 'gauss-legendre', 2, 2, 2), 0, 3, 1, 2, 0); add(spec('global', 'gauss-jacobi', 2, 2, 2, transform=1, alpha=0.5, beta=1.5), 0, 0, mut=1); add(spec('global', 'gauss-gegenbauer', 1, 2, 2, transform=1, alpha=2.0), 0, 3, 0, 1, 0)
        add(spec('sequence', 'rleja', 2, 3, 2), 1, 3, 2, 3, 0); add(spec('sequence', 'leja', 2, 2, 2), 2, 2, mut=1); add(spec('sequence', 'min-delta', 2, 2, 1), 2, 3, 0, 1, 0)
        add(spec('global', 'clenshaw-curtis', 2, 2, 1), 3, 2, mut=2, max_paths=50, strategy='tree', time_budget_s=40); add(spec('sequence', 'rleja', 2, 2, 1), 3, 3, 0, 1, 2, max_paths=40, strategy='tree', time_budget_s=40); add(spec('localp', 'localp', 2, 2, 1, order=1), 3, 0, mut=2, max_paths=40, strategy='tree', time_budget_s=40)   # solver-chosen histories before the copy
        add(spec('fourier', 'fourier', 2, 2, 1), 1, 3, 1, 2, 0); add(spec('fourier', 'fourier', 1, 2, 1), 2, 0, mut=1)
        add(spec('wavelet', 'wavelet', 2, 2, 1, order=1), 1, 3, 0, 1, 0); add(spec('wavelet', 'wavelet', 1, 2, 1, order=1), 2, 1, mut=1)
        for sp in (spec('wavelet', 'wavelet', 1, 3, 2, order=1), spec('localp', 'localp', 2, 3, 2, order=1), spec('global', 'leja', 2, 3, 2), spec('sequence', 'rleja', 2, 3, 2), spec('fourier', 'fourier', 1, 3, 1)): add(sp, 2, 3, 1, 3, 2); add(sp, 1, 3, 2, 3, 2)
    else:
        fams = [spec('localp', r, 2, 3, 2, order=o, limits=(2 if o == 1 else 0)) for r in LOCAL_RULES for o in (0, 1, 2, 3) if not (o == 0 and r != 'localp')]
        fams += [spec('global', r, 2, 3, 2, transform=(1 if r == 'fejer2' else 0)) for r in ('clenshaw-curtis', 'leja', 'fejer2', 'rleja-odd', 'gauss-patterson')] + [spec('global', r, 2, 3, 2) for r in ('gauss-legendre', 'chebyshev', 'gauss-hermite')] + [spec('global', 'gauss-jacobi', 2, 3, 2, transform=1, alpha=0.5, beta=1.5), spec('global', 'gauss-laguerre', 2, 3, 2, transform=1, alpha=1.0), spec('global', 'gauss-chebyshev2', 2, 3, 2, transform=1)]
        fams += [spec('sequence', r, 2, 3, 2) for r in SEQUENCE_RULES] + [spec('fourier', 'fourier', 2, 3, 1), spec('wavelet', 'wavelet', 2, 3, 1, order=1), spec('wavelet', 'wavelet', 1, 3, 2, order=3)]
        for sp in (spec('global', 'clenshaw-curtis', 2, 2, 1), spec('global', 'leja', 2, 3, 1, limits=2), spec('sequence', 'rleja', 2, 2, 1), spec('sequence', 'min-delta', 2, 3, 2, transform=1), spec('fourier', 'fourier', 2, 2, 1), spec('localp', 'localp', 2, 2, 1, order=1),
                   spec('localp', 'semi-localp', 2, 3, 1, order=2), spec('wavelet', 'wavelet', 1, 2, 1, order=1)):
            add(sp, 3, 2, mut=2, max_paths=343, strategy='tree', time_budget_s=400); add(sp, 3, 3, 1, 2, 2, max_paths=200, strategy='tree', time_budget_s=300); add(sp, 3, 0, mut=0, max_paths=120, strategy='tree', time_budget_s=200); add(sp, 3, 1, mut=1, max_paths=120, strategy='tree', time_budget_s=200)
        for sp in fams:
            nonnested = any(r in sp for r in ('gauss-legendre', 'chebyshev', 'gauss-hermite', 'gauss-jacobi', 'gauss-laguerre'))
            for hist in ((0,) if nonnested else (0, 1, 2)):
                for how in (0, 1, 2): add(sp, hist, how, mut=how % 2)
                for (b, e) in ((0, 1), (1, 3), (0, 3), (2, 3)): add(sp, hist, 3, b, e, (b + e) % 2); add(sp, hist, 3, b, e, 2)
                add(sp, hist, 0, mut=2)
    return cs


def run(tier, seed, only=None):
    cs = filt(configs(tier), only)
    META['bounds'] = {'dims': '1..2', 'outputs': '2..3, every listed sub-range', 'histories': 3, 'copy routes': 4}
    return runner.run_property('C11', cs, tier, seed, META)
