import runner
from runner import Config
from common import *

META = {
    'explanation': 'Engine B (fpsym): getQuadratureWeights / integrate / loadNeededValues of the real code run on a polynomial p = sum_m c_m x^m over exactly the multi-indexes of getGlobalPolynomialSpace(false) '
                   '(Fourier: over the modes attached to the grid points) with every coefficient c_m symbolic; the oracle side sum_m c_m mu_m uses independent closed-form moments of the documented weight functions. '
                   'One linear-arithmetic query per obligation decides exactness for ALL polynomials of the declared space; a second mode makes the value array symbolic and decides integrate() == sum w_i y_i for all values.',
    'functions_encoded': ['TasmanianSparseGrid::{makeGlobalGrid, makeSequenceGrid, makeFourierGrid, setDomainTransform, getPoints, getQuadratureWeights, getGlobalPolynomialSpace, loadNeededValues, integrate}',
                          'GridGlobal::{getQuadratureWeights, computeTensorWeights, getPolynomialSpaceSet, integrate}', 'GridSequence::{getQuadratureWeights, integrate, recomputeSurpluses}', 'GridFourier::{getQuadratureWeights, integrate}',
                          'OneDimensionalMeta::getQExact', 'OneDimensionalNodes::*', 'MultiIndexManipulations::{selectTensors, computeTensorWeights, createPolynomialSpace}'],
    'assumptions': ['oracle: closed-form moments (uniform 2/(k+1); Jacobi family via the Beta function; Laguerre Gamma(k+a+1); Hermite Gamma((k+a+1)/2); binomial expansion for linear transforms; clenshaw-curtis-zero tested on (1-x^2) q(x))',
                    'tolerance 1e-9 x conditioning (sum |w_i| |x_i^m| + |mu_m|); coefficients in [-1,1]', 'exotic quadrature (Addons) outside the claim: no closed-form oracle', 'custom-tabulated rules outside this check', 'gauss-jacobi with alpha != beta: degree <= 13 (precision of the oracle)'],
}

JAC = {'gauss-gegenbauer': [(0.5, None), (2.0, None)], 'gauss-gegenbauer-odd': [(1.0, None)], 'gauss-jacobi': [(0.5, 1.5), (2.0, 1.0), (0.0, 0.0), (0.5, -0.5), (-0.25, 0.25)], 'gauss-jacobi-odd': [(1.0, 0.5), (0.75, -0.75)],
       'gauss-laguerre': [(0.0, None), (1.5, None)], 'gauss-laguerre-odd': [(1.0, None)], 'gauss-hermite': [(0.0, None), (2.0, None)], 'gauss-hermite-odd': [(1.0, None)]}


def configs(tier):
    cs = []
    def add(sp, mode=0, hist=0):
        cs.append(Config(short(sp) + ('-values' if mode else '') + ('-hist%d' % hist if hist else ''), 'C02', [sp, mode, hist], max_paths=1))
    if tier == 'quick':
        # every rule in 1-D up to a depth that reaches all table entries with <= 13 points, and in 2-D at a small depth (each configuration costs ~0.1 s)
        for rule in NESTED_GLOBAL + NON_NESTED:
            for (a, b) in JAC.get(rule, [(None, None)])[:1]:
                fast = rule in ('clenshaw-curtis', 'clenshaw-curtis-zero', 'fejer2', 'gauss-patterson', 'rleja-double2', 'rleja-shifted-double')
                jac_general = rule.startswith('gauss-jacobi') and a != b
                add(spec('global', rule, 1, 1, 3 if fast else (3 if jac_general else (6 if rule == 'rleja-double4' else 5)), alpha=a, beta=b))
                add(spec('global', rule, 2, 1, 2 if fast else 3, 'level', transform=(1 if rule in ('fejer2', 'gauss-chebyshev2', 'gauss-laguerre', 'gauss-jacobi') else 0), alpha=a, beta=b))
        add(spec('global', 'gauss-jacobi', 1, 1, 3, alpha=0.5, beta=-0.5)); add(spec('global', 'gauss-jacobi', 2, 1, 2, alpha=-0.25, beta=0.25, transform=1)); add(spec('global', 'gauss-jacobi-odd', 1, 1, 2, alpha=0.75, beta=-0.75))   # beta = -alpha: symmetric-looking parameters, non-symmetric weight
        add(spec('global', 'gauss-legendre', 2, 1, 3, 'qptotal')); add(spec('global', 'leja', 2, 1, 4, 'qpcurved', aniso=1)); add(spec('global', 'min-delta', 3, 1, 2, limits=1))
        for rule in SEQUENCE_RULES: add(spec('sequence', rule, 2, 1, 4)); add(spec('sequence', rule, 1, 1, 6, transform=1))
        # general (not provably lower) selection: negative curved weights, with and without level limits - the set must be completed to a lower set on both routes
        for t in ('curved', 'ipcurved', 'qpcurved'):
            add(spec('sequence', 'leja', 2, 1, 3, t, aniso=4, limits=3)); add(spec('global', 'gauss-legendre', 2, 1, 3, t, aniso=4, limits=3))
            if t != 'curved': add(spec('global', 'clenshaw-curtis', 2, 1, 3, t, aniso=4, limits=3))   # (level-based curved selection reaches level 8 of an exponentially growing rule: 1500 symbols)
        add(spec('sequence', 'leja', 2, 1, 3, 'curved', aniso=4)); add(spec('global', 'gauss-legendre', 2, 1, 4, 'ipcurved', aniso=2, limits=2)); add(spec('global', 'leja', 3, 1, 3, 'curved', aniso=4, limits=1))
        add(spec('sequence', 'rleja', 2, 1, 6, 'level', aniso=3)); add(spec('sequence', 'leja', 2, 1, 4, limits=1)); add(spec('global', 'clenshaw-curtis', 2, 1, 4, 'level', aniso=3)); add(spec('sequence', 'min-delta', 3, 1, 5, 'qptotal', aniso=3))   # directions of very different depth
        add(spec('sequence', 'min-lebesgue', 2, 1, 4, 'qptotal', transform=1)); add(spec('sequence', 'leja', 3, 1, 3))
        add(spec('fourier', 'fourier', 2, 1, 2)); add(spec('fourier', 'fourier', 1, 1, 3, transform=1))
        for h in (1, 2, 3, 4, 5):   # the weights of a grid reached through update / copy / round trip / assignment (rules that use alpha and beta)
            add(spec('global', 'gauss-jacobi', 2, 1, 2, alpha=0.5, beta=1.5), 0, h); add(spec('global', 'gauss-hermite', 1, 1, 3, alpha=2.0), 0, h)
        add(spec('global', 'gauss-laguerre', 2, 1, 2, transform=1, alpha=1.5), 0, 1); add(spec('global', 'gauss-gegenbauer', 2, 1, 3, alpha=2.0), 0, 2); add(spec('sequence', 'rleja', 2, 1, 3), 0, 2); add(spec('fourier', 'fourier', 2, 1, 2), 0, 1)
        add(spec('global', 'clenshaw-curtis', 2, 2, 3), 1); add(spec('sequence', 'leja', 2, 2, 3), 1); add(spec('fourier', 'fourier', 2, 1, 2), 1); add(spec('global', 'gauss-legendre', 2, 1, 2), 1)
    else:
        for t in ('curved', 'ipcurved', 'qpcurved'):
            for lim in (0, 1, 3):
                add(spec('sequence', 'leja', 2, 1, 3, t, aniso=4, limits=lim)); add(spec('global', 'gauss-legendre', 2, 1, 3, t, aniso=4, limits=lim)); add(spec('sequence', 'rleja', 3, 1, 3, t, aniso=4, limits=lim))
                if t != 'curved': add(spec('global', 'clenshaw-curtis', 2, 1, 3, t, aniso=4, limits=lim))
        for rule in NESTED_GLOBAL + NON_NESTED:
            abl = JAC.get(rule, [(None, None)])
            for (a, b) in abl:
                fast = rule in ('clenshaw-curtis', 'clenshaw-curtis-zero', 'fejer2', 'gauss-patterson', 'rleja-double2', 'rleja-double4', 'rleja-shifted-double')
                jac_general = rule.startswith('gauss-jacobi') and a != b    # oracle: alternating binomial sum in long double, keep the degree <= 13
                for d, l in ((1, (6 if rule == 'rleja-double4' else 4) if fast else (3 if jac_general else 6)), (2, 3 if fast else (3 if jac_general else 4)), (3, 2)):
                    for tr in (0, 1):
                        add(spec('global', rule, d, 1, l, 'level', transform=tr, alpha=a, beta=b))
                add(spec('global', rule, 2, 1, 3 if (fast or jac_general) else 5, 'qptotal', aniso=1, alpha=a, beta=b))
                add(spec('global', rule, 2, 1, 2, 'level', limits=1, alpha=a, beta=b))
        for t in DEPTH_TYPES:
            add(spec('global', 'gauss-legendre', 2, 1, 4 if 'tensor' not in t else 2, t, aniso=1)); add(spec('global', 'clenshaw-curtis', 2, 1, 3 if 'tensor' not in t else 2, t, aniso=1))
            add(spec('sequence', 'rleja', 2, 1, 4 if 'tensor' not in t else 2, t, aniso=1)); add(spec('global', 'chebyshev', 2, 1, 3 if 'tensor' not in t else 2, t))
        for rule in SEQUENCE_RULES:
            for t in ('level', 'iptotal', 'qptotal'): add(spec('sequence', rule, 2, 1, 6, t, aniso=3)); add(spec('sequence', rule, 3, 1, 5, t, aniso=3, transform=1))
            add(spec('sequence', rule, 2, 1, 4, limits=1)); add(spec('sequence', rule, 2, 1, 5, limits=2)); add(spec('sequence', rule, 2, 1, 5, 'level', aniso=1))
            for d, l in ((1, 6), (2, 4), (3, 3)):
                for tr in (0, 1): add(spec('sequence', rule, d, 1, l, transform=tr))
            add(spec('sequence', rule, 2, 2, 3), 1)
        for d, l in ((1, 3), (2, 2), (3, 1), (2, 3)):
            for tr in (0, 1): add(spec('fourier', 'fourier', d, 1, l, transform=tr))
        add(spec('fourier', 'fourier', 2, 1, 3, 'iptotal', aniso=1)); add(spec('fourier', 'fourier', 2, 2, 2), 1)
        for rule in ('clenshaw-curtis', 'gauss-legendre', 'leja', 'gauss-hermite', 'chebyshev'):
            add(spec('global', rule, 2, 2, 3, transform=1), 1)
        for h in (1, 2, 3, 4, 5):
            for rule in NESTED_GLOBAL[:4] + NON_NESTED:
                for (a, b) in JAC.get(rule, [(None, None)])[:2]:
                    jac_general = rule.startswith('gauss-jacobi') and a != b
                    add(spec('global', rule, 2, 1, 2 if jac_general else 3, 'level', transform=(h % 2), alpha=a, beta=b), 0, h)
                    add(spec('global', rule, 1, 1, 3, 'level', alpha=a, beta=b), 0, h)
            add(spec('sequence', 'rleja', 2, 1, 3, transform=1), 0, h); add(spec('sequence', 'min-delta', 2, 1, 3), 0, h); add(spec('fourier', 'fourier', 2, 1, 2, transform=(h % 2)), 0, h)
    return cs


def run(tier, seed, only=None):
    cs = filt(configs(tier), only)
    META['bounds'] = {'dims': '1..3', 'depth': '<= 6 (1-D), <= 5 (2-D), <= 3 (3-D)', 'alpha/beta': 'the listed pairs', 'transforms': 'none and one affine box', 'histories': 'make; value-less update; load-update-load; copy; binary round trip; assignment'}
    ks = [] if only else kmeta(tier)
    META.setdefault('functions_encoded', []).append('OneDimensionalMeta::{getNumPoints, getIExact, getQExact} for all 35 global rules via ir2c + CBMC (table consistency, no signed overflow up to the level bound)')
    return runner.run_property('C02', cs, tier, seed, META, ks)
