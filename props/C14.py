import runner
from runner import Config
from common import *

META = {
    'explanation': 'Engine B (fpsym): a table of ~85 documented ways of misusing the public API is issued on a real grid in a given state (fresh, loaded, pending refinement, active construction, empty; every family) whose values are symbolic. '
                   'Each call must raise std::invalid_argument or std::runtime_error (exception type observed on the real control flow), and every observable afterwards - structure, limits, flags, points, value symbols, coefficients and surrogate EXPRESSIONS - '
                   'must be identical to before (symbol identity decided by z3 for all values); the run is under ASan so out-of-bounds accesses on the error paths are observed; a follow-up valid operation must succeed.',
    'functions_encoded': ['front-end validation of TasmanianSparseGrid::{make*Grid, read, loadNeededValues, evaluate*, get*Weights, differentiate, setHierarchicalCoefficients, loadConstructedPoints, set/getDomainTransform, setAnisotropicRefinement, estimateAnisotropicCoefficients, setSurplusRefinement (all overloads), update*Grid, getGlobalPolynomialSpace, removePointsByHierarchicalCoefficient, getCandidateConstructionPoints (3 overloads), beginConstruction}',
                          'back-end validation reached by those calls in all five grid families'],
    'assumptions': ['reals instead of doubles on symbolic data', 'misuse arguments are the concrete ones in the table (sizes off by one or more, out-of-range scalars); the for-all part is over the grid values', 'Wavelet with concrete values',
                    'ASCII/binary garbage streams are short fixed strings; arbitrary byte tapes are engine A (not built yet)'],
}


def configs(tier):
    cs = []
    def add(sp, state):
        cs.append(Config('%s-s%d' % (short(sp), state), 'C14', [sp, state], max_paths=1))
    fams = [spec('localp', 'localp', 2, 2, 1, order=1, limits=2), spec('global', 'clenshaw-curtis', 2, 2, 1, transform=1), spec('sequence', 'rleja', 2, 1, 2, limits=2), spec('fourier', 'fourier', 2, 1, 1), spec('wavelet', 'wavelet', 2, 1, 1, order=1)]
    if tier == 'quick':
        for i, sp in enumerate(fams):
            for st in (1, 3, (i % 3) * 2): add(sp, st)
        add(spec('global', 'gauss-legendre', 2, 1, 2), 1); add(spec('localp', 'localp', 2, 0, 1, order=1), 0)
    else:
        fams += [spec('localp', 'semi-localp', 2, 1, 2, order=2), spec('localp', 'localp-zero', 1, 2, 2, order=3), spec('localp', 'localp-boundary', 2, 1, 1, order=0), spec('global', 'leja', 2, 1, 2, limits=2), spec('global', 'gauss-hermite', 2, 1, 2, alpha=1.0),
                 spec('global', 'fejer2', 3, 2, 1), spec('sequence', 'min-delta', 2, 2, 2, transform=1), spec('fourier', 'fourier', 1, 2, 2, transform=1), spec('wavelet', 'wavelet', 1, 2, 2, order=3), spec('localp', 'localp', 2, 0, 1, order=1), spec('global', 'clenshaw-curtis', 2, 0, 1)]
        for sp in fams:
            for st in range(5): add(sp, st)
    return cs


def run(tier, seed, only=None):
    cs = filt(configs(tier), only)
    META['bounds'] = {'misuses': 'the table in harness/C14.cpp (about 85 calls, those applicable to the state)', 'states': 5, 'families': 'all five', 'dims': '1..3'}
    return runner.run_property('C14', cs, tier, seed, META)
