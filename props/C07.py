import runner
from runner import Config
from common import *

META = {
    'explanation': 'Engine B (fpsym): operation sequences of the real API (set*Refinement in every strategy and through both overloads, updateGrid, loadNeededValues incl. overwriting reloads, mergeRefinement, clearRefinement) run with symbolic, coordinate-tagged values, '
                   'symbolic tolerances and scale corrections. After every step the set invariants are checked on the path class, value association is decided as SYMBOL IDENTITY by z3 (a permuted merge cannot hide in a tolerance), and for the classic criterion the harness '
                   'evaluates the documented rule on the same coefficient expressions (its comparisons join the path condition) and the proposed set must equal it on every class, including tolerance 0 and everything-below-tolerance.',
    'functions_encoded': ['TasmanianSparseGrid::{setSurplusRefinement (4 overloads), setAnisotropicRefinement, updateGrid, loadNeededValues, mergeRefinement, clearRefinement, getLoadedValues, getNeededIndexes}',
                          'GridLocalPolynomial::{buildUpdateMap, getRefinementCanidates, addChild*, mergeRefinement}', 'GridWavelet refinement', 'GridSequence/GridGlobal/GridFourier refinement + updateGrid', 'MultiIndexSet::{addSortedIndexes, operator-}', 'StorageSet::addValues'],
    'assumptions': ['reals instead of doubles on symbolic data', 'operation sequences (<= 5 steps) are enumerated as configurations; values, tolerances in [0,0.5], scale corrections in [0.25,2] are symbolic', 'Wavelet with concrete values', 'classic oracle for Local Polynomial grids only'],
}

LOCAL_SEQ = ['Sc,L', 'Sv,L,Sv', 'Ss,L,C', 'Sf,L,Sd,L', 'Sp,L,M,L', 'Sc,C,Sv,L,L', 'Sv,M', 'Sd,L,Sp,C']
GLOBAL_SEQ = ['A,L,A', 'Sg,L,C', 'A,C,U,L', 'U,L,Sg,M,L', 'A,L,L', 'Ud,L,A,L', 'A,L,Ud,L,L']


def configs(tier):
    cs = []
    def add(sp, ops, output=-1, **kw):
        kw.setdefault('strategy', 'tree'); kw.setdefault('solver_timeout_ms', 5000); kw.setdefault('max_paths', 8)
        cs.append(Config('%s-%s-out%d' % (short(sp), ops.replace(',', '').replace('?', 'x'), output), 'C07', [sp, ops, output], **kw))
    if tier == 'quick':
        add(spec('localp', 'localp', 2, 1, 2, order=1), 'Sv,L,Sv'); add(spec('localp', 'localp', 2, 2, 2, order=1), 'Sv,L', 0); add(spec('localp', 'semi-localp', 2, 2, 1, order=2), 'Sc,L,Sv,M', -1)
        add(spec('localp', 'localp-zero', 2, 1, 2, order=3, limits=2), 'Sv,L,C'); add(spec('localp', 'localp-boundary', 1, 1, 2, order=1), 'Sf,L,Sd,L'); add(spec('localp', 'localp', 2, 1, 1, order=0), 'Ss,L,Sp,L', max_paths=4)
        add(spec('localp', 'localp', 2, 1, 1, order=1), 'Sc,C,Sv,L,L')
        add(spec('localp', 'localp', 1, 2, 2, order=1), 'Sv', -1, max_paths=48); add(spec('localp', 'localp-zero', 1, 3, 1, order=2), 'Sv', -1, max_paths=32)   # several outputs, all active: the per-output max of the classic criterion
        add(spec('wavelet', 'wavelet', 1, 1, 1, order=1), 'Sc,L,C'); add(spec('wavelet', 'wavelet', 1, 1, 0, order=3, limits=1), 'Sc,L,Sc', max_paths=12); add(spec('wavelet', 'wavelet', 2, 1, 0, order=3, limits=2), 'Sc,L,Sc', max_paths=8); add(spec('localp', 'localp-boundary', 2, 1, 1, order=1, limits=2), 'Sc,L,Sc')   # classic refinement under level limits add(spec('wavelet', 'wavelet', 2, 1, 1, order=1), 'Sf,L')
        # exact zeros: refinement right after a merge (all values and coefficients are the constant zero) with the tolerance-zero class constructed by the solver
        add(spec('wavelet', 'wavelet', 1, 1, 1, order=1), 'Sc,M,Sc', max_paths=10); add(spec('wavelet', 'wavelet', 2, 1, 1, order=3), 'Sc,M,Sf', max_paths=10); add(spec('localp', 'localp', 2, 1, 1, order=1), 'Sc,M,Sc', max_paths=10); add(spec('localp', 'semi-localp', 1, 2, 2, order=2), 'Sc,M,Sd', 1, max_paths=10)
        add(spec('sequence', 'rleja', 2, 1, 2), 'Sg,L,A,L', 0); add(spec('sequence', 'leja', 2, 2, 1), 'A,C,U,L', 0); add(spec('global', 'clenshaw-curtis', 2, 1, 1), 'A,L,U,M,L', 0)
        add(spec('global', 'clenshaw-curtis', 2, 1, 1), '?,?,L', 0, max_paths=60, strategy='tree'); add(spec('sequence', 'rleja', 2, 1, 1), '?,?,L', 0, max_paths=70); add(spec('localp', 'localp', 2, 1, 1, order=1), '?,?,L', -1, max_paths=90)   # solver-enumerated histories
        add(spec('global', 'leja', 2, 1, 2), 'Sg,L,C', 0); add(spec('global', 'clenshaw-curtis', 2, 1, 1), 'Ud,L', 0); add(spec('sequence', 'rleja', 2, 1, 1), 'Ud,L,A,L', 0); add(spec('fourier', 'fourier', 2, 1, 1), 'Ud,L', 0); add(spec('fourier', 'fourier', 2, 1, 1), 'U,M,L', 0); add(spec('fourier', 'fourier', 2, 1, 1), '?,?,L', 0, max_paths=70); add(spec('fourier', 'fourier', 2, 1, 1), 'A,L,U', 0)
    else:
        for rule in LOCAL_RULES:
            for order in (0, 1, 2, 3):
                if order == 0 and rule != 'localp': continue
                for i, ops in enumerate(LOCAL_SEQ):
                    add(spec('localp', rule, 2, 1 + (i % 2), 2 if i % 3 else 1, order=order, limits=(2 if i == 3 else 0)), ops, -1 if i % 2 == 0 else 0, max_paths=30)
            add(spec('localp', rule, 3, 1, 1, order=1), 'Sv,L,Sc,L', max_paths=20)
            add(spec('localp', rule, 1, 2, 3, order=2), 'Sv,L,Sv,L', 1, max_paths=30)
        for order in (1, 3):
            for lim in (1, 2): add(spec('wavelet', 'wavelet', 1, 1, 0, order=order, limits=lim), 'Sc,L,Sc,L,Sc', max_paths=30); add(spec('wavelet', 'wavelet', 2, 1, 0, order=order, limits=lim), 'Sc,L,Sc', max_paths=20)
            for ops in ('Sc,L,C', 'Sf,L,Sd', 'Ss,L,M,L', 'Sp,L'): add(spec('wavelet', 'wavelet', 1, 1, 1, order=order), ops, max_paths=20)
            add(spec('wavelet', 'wavelet', 2, 1, 1, order=order), 'Sc,L', max_paths=15)
        for rule in SEQUENCE_RULES:
            for ops in GLOBAL_SEQ: add(spec('sequence', rule, 2, 1, 2), ops, 0, max_paths=25)
            add(spec('sequence', rule, 2, 2, 2, limits=2), 'Sg,L,A,L', 1, max_paths=25)
        for rule in ('leja', 'rleja', 'min-lebesgue'):
            for ops in GLOBAL_SEQ: add(spec('global', rule, 2, 1, 2), ops, 0, max_paths=25)
        for rule in ('clenshaw-curtis', 'fejer2', 'rleja-odd', 'gauss-patterson'):
            for ops in ('A,L,A', 'A,C,U,L', 'A,L,U,M,L', 'Ud,L,A,L', 'A,L,Ud,L'): add(spec('global', rule, 2, 1, 1), ops, 0, max_paths=25)
        for sp, out in ((spec('global', 'clenshaw-curtis', 2, 1, 1), 0), (spec('global', 'leja', 2, 2, 1), 0), (spec('sequence', 'rleja', 2, 1, 1), 0), (spec('sequence', 'min-delta', 2, 2, 2), 1), (spec('fourier', 'fourier', 2, 1, 1), 0),
                        (spec('localp', 'localp', 2, 1, 1, order=1), -1), (spec('localp', 'semi-localp', 2, 2, 1, order=2), -1), (spec('localp', 'localp-boundary', 1, 1, 2, order=1), 0), (spec('wavelet', 'wavelet', 1, 1, 1, order=1), -1)):
            add(sp, '?,?,?,L', out, max_paths=500, time_budget_s=400); add(sp, '?,L,?,?', out, max_paths=300, time_budget_s=300)
        for ops in ('A,L,A', 'A,C,U,L', 'U,L,M,L', 'Ud,L', 'A,L,Ud,L'): add(spec('fourier', 'fourier', 2, 1, 1), ops, 0, max_paths=15, timeout=300)
    return cs


def run(tier, seed, only=None):
    cs = filt(configs(tier), only)
    META['bounds'] = {'dims': '1..3', 'depth': '1..3', 'operation sequences': '<= 5 steps after the initial load; listed sequences plus solver-enumerated ones (each ? ranges over the 7-9 operations of the family: quick 2 free steps, thorough 3)', 'path classes per configuration': '8-90 (quick) / 30-500 (thorough), the larger budgets for solver-chosen histories'}
    ks = ksets(tier) if (not only or 'K-sets' in only) else []
    if only: ks = [k for k in ks if __import__('re').search(only, k.name)]
    META.setdefault('functions_encoded', []).append('MultiIndexSet::{addSortedIndexes, operator+=, operator-, getSlot, removeIndex, MultiIndexSet(Data2D)} and StorageSet::addValues via clang -O1 IR -> ir2c -> CBMC (engine K): for ALL strictly sorted index sets of the enumerated sizes '
                                                     '(<= 3x3 multi-indexes in 2-D, 4x4 in 1-D, entries in a small range) the merge is sorted/duplicate-free/complete, the difference is exact, the binary search finds exactly the present indexes and the merged values sit at the position of their index')
    META['bounds']['engine K (index sets)'] = 'sizes enumerated: quick 2x2 (merge, values), 2x1 (difference), 3 (search/removal, sort+unique); thorough up to 3x3 in 2-D (set difference up to 2x2), 4x4 in 1-D, 2x2 in 3-D; entries in [0,2] (2-D), [0,8] (1-D), [0,1] (3-D); unwinding assertions on; non-constant heap requests served from 256-byte blocks (asserted sufficient)'
    return runner.run_property('C07', cs, tier, seed, META, ks)
