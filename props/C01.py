import runner
from runner import Config
from common import *

META = {
    'explanation': 'Engine B (fpsym): the real TasmanianSparseGrid call tree (make*, loadNeededValues, set*Refinement, loadConstructedPoints, finishConstruction, evaluate, evaluateBatch, evaluateFast '
                   'and everything below them) is compiled from /repo to LLVM IR, instrumented and run with every model value a symbolic real; grid structure is concrete per configuration / path class. '
                   'Each obligation evaluate(x_i)[k] == y_{i,k} is a linear-arithmetic query over all value arrays in [-1,1]^N; refinement decisions that depend on the values are path classes enumerated by z3.',
    'functions_encoded': ['TasmanianSparseGrid::{make*Grid, loadNeededValues, setSurplusRefinement, setAnisotropicRefinement, beginConstruction, getCandidateConstructionPoints, loadConstructedPoints, finishConstruction, evaluate, evaluateBatch, evaluateFast}',
                          'GridLocalPolynomial::{recomputeSurpluses, updateSurpluses, expandGrid, evaluate*}', 'GridSequence::{recomputeSurpluses, evaluate*}', 'GridGlobal::{evaluate*, loadConstructedPoint}', 'GridFourier::{calculateFourierCoefficients, evaluate*}', 'StorageSet::addValues', 'MultiIndexSet'],
    'assumptions': ['double arithmetic on symbolic data is interpreted over the reals; tolerance 1e-9*(1+N)', 'model values range over [-1,1]; refinement tolerances over [0,0.6]',
                    'Wavelet grids are outside the claim (GMRES iterates are not polynomial in the values)', 'Local polynomial obligations only when the loaded set is parent-complete (as the statement says)'],
}


def configs(tier):
    cs = []
    def add(sp, script, param='', **kw):
        name = short(sp) + '-' + script + ('-' + param if param else '')
        if script in ('refine', 'construct', 'construct1', 'construct1r', 'mixed', 'sym'): kw.setdefault('strategy', 'tree'); kw.setdefault('solver_timeout_ms', 2000); kw.setdefault('max_paths', 6); kw.setdefault('time_budget_s', 40 if tier == 'quick' else 240)
        tiny = kw.pop('tiny', 0)
        cs.append(Config(name + ('-tiny' if tiny else ''), 'C01', [sp, script] + ([param] if param else []) + (['vs=1e-13'] if tiny else []), **kw))
    if tier == 'quick':
        add(spec('localp', 'localp', 2, 1, 3, order=1), 'load')
        add(spec('localp', 'localp', 3, 2, 2, order=2), 'load')
        for rule in ('semi-localp', 'localp-zero', 'localp-boundary'): add(spec('localp', rule, 3, 1, 2, order=1), 'load')   # sparse-Kronecker surplus path (>= 3 dims, complete hierarchy) per rule
        for rule in LOCAL_RULES: add(spec('localp', rule, 3, 1, 2, order=2), 'load')   # the Vandermonde pattern of the Kronecker path depends on the order
        add(spec('localp', 'localp-zero', 3, 1, 3, order=-1), 'load'); add(spec('localp', 'localp', 3, 1, 3, order=3), 'load')
        add(spec('localp', 'semi-localp', 2, 1, 3, order=2), 'load')
        add(spec('localp', 'localp-zero', 2, 1, 2, order=3), 'load')
        add(spec('localp', 'localp-boundary', 2, 1, 2, order=-1), 'load')
        add(spec('localp', 'localp', 2, 1, 2, order=0), 'load')
        add(spec('global', 'clenshaw-curtis', 2, 2, 3), 'load')
        add(spec('global', 'leja', 2, 1, 3, 'iptotal', aniso=1), 'load')
        add(spec('global', 'rleja', 3, 1, 2, limits=1), 'load')
        add(spec('sequence', 'rleja', 2, 2, 3), 'load')
        add(spec('sequence', 'min-delta', 2, 1, 3, 'ipcurved', aniso=1), 'reload')
        add(spec('fourier', 'fourier', 2, 1, 2), 'load')
        add(spec('global', 'clenshaw-curtis', 2, 1, 2, transform=1), 'reload')
        add(spec('localp', 'localp', 2, 1, 2, order=1), 'refine', 'classic', max_paths=12)
        add(spec('localp', 'semi-localp', 2, 1, 2, order=2), 'refine', 'stable', max_paths=12)
        add(spec('localp', 'localp', 2, 1, 2, order=1), 'refine', 'fds', max_paths=12)
        add(spec('sequence', 'leja', 2, 1, 2), 'refine', 'surplus', max_paths=12)
        add(spec('global', 'clenshaw-curtis', 2, 1, 2), 'refine', 'aniso', max_paths=12)
        add(spec('localp', 'localp', 2, 1, 2, order=1), 'construct', '3')
        add(spec('localp', 'localp', 2, 1, 2, order=2), 'construct1')
        add(spec('sequence', 'rleja', 2, 1, 2), 'construct', '2')
        add(spec('global', 'clenshaw-curtis', 2, 1, 2), 'construct', '4')
        add(spec('fourier', 'fourier', 2, 1, 1), 'construct', '3')
        add(spec('global', 'clenshaw-curtis', 2, 1, 1), 'sym', '3', max_paths=60); add(spec('sequence', 'rleja', 2, 1, 1), 'sym', '3', max_paths=60); add(spec('localp', 'localp', 2, 1, 1, order=1), 'sym', '3', max_paths=60)   # solver-chosen histories
        add(spec('fourier', 'fourier', 2, 1, 2, 'level', aniso=1), 'reupdate'); add(spec('global', 'clenshaw-curtis', 2, 1, 3, 'level', aniso=1), 'reupdate'); add(spec('sequence', 'rleja', 2, 1, 3, 'iptotal', aniso=1), 'reupdate')
        # values of magnitude 1e-13 (tolerances scale with them): absolute thresholds hidden in the linear coefficient computations
        add(spec('localp', 'localp', 3, 1, 2, order=2), 'load', tiny=1); add(spec('localp', 'localp', 2, 1, 2, order=1), 'construct1', tiny=1); add(spec('localp', 'localp', 2, 1, 2, order=1, limits=2), 'construct1r', tiny=1); add(spec('localp', 'semi-localp', 2, 1, 2, order=2, limits=2), 'construct1r'); add(spec('sequence', 'leja', 2, 1, 2, limits=2), 'construct1r');   # limits make the candidate set finite: the final grid is the full box, hence parent-complete add(spec('sequence', 'rleja', 2, 1, 3), 'load', tiny=1); add(spec('global', 'clenshaw-curtis', 2, 1, 2), 'load', tiny=1); add(spec('fourier', 'fourier', 2, 1, 1), 'load', tiny=1)
        add(spec('localp', 'localp', 2, 1, 1, order=1), 'mixed', '3'); add(spec('sequence', 'rleja', 2, 1, 1), 'mixed', '2'); add(spec('global', 'clenshaw-curtis', 2, 1, 1), 'mixed', '3')
    else:
        for rule in LOCAL_RULES:
            for order in (-1, 0, 1, 2, 3, 4):
                if order == 0 and rule != 'localp': continue
                add(spec('localp', rule, 2, 1, 3, order=order), 'load')
                add(spec('localp', rule, 3, 2, 2, order=order), 'load')
                add(spec('localp', rule, 2, 1, 2, order=order), 'construct1')
                for strat in ('classic', 'parents', 'direction', 'fds', 'stable'):
                    if order in (1, 2, -1):
                        add(spec('localp', rule, 2, 1, 2, order=order), 'refine', strat, max_paths=40)
            add(spec('localp', rule, 4, 1, 2, order=1), 'load')
            add(spec('localp', rule, 1, 1, 4, order=2), 'load')
            add(spec('localp', rule, 2, 2, 3, order=1, limits=1), 'load')
            add(spec('localp', rule, 2, 1, 3, order=1, transform=1), 'reload')
            add(spec('localp', rule, 2, 1, 2, order=1, limits=2), 'construct', '3')
        for rule in NESTED_GLOBAL:
            add(spec('global', rule, 2, 1, 3), 'load')
            add(spec('global', rule, 2, 1, 2), 'construct', '3', max_paths=3, time_budget_s=120)
        for t in DEPTH_TYPES:
            add(spec('global', 'clenshaw-curtis', 2, 1, 4 if 'tensor' not in t else 2, t, aniso=1), 'load')
            add(spec('sequence', 'rleja', 2, 1, 4 if 'tensor' not in t else 2, t, aniso=1), 'load')
        add(spec('global', 'clenshaw-curtis', 3, 2, 3), 'load')
        add(spec('global', 'clenshaw-curtis', 4, 1, 2), 'load')
        add(spec('global', 'fejer2', 2, 1, 3, limits=1, transform=1), 'reload')
        add(spec('global', 'clenshaw-curtis', 2, 1, 2), 'refine', 'aniso', max_paths=40)
        add(spec('global', 'leja', 2, 1, 2), 'refine', 'surplus', max_paths=40)
        for rule in SEQUENCE_RULES:
            add(spec('sequence', rule, 2, 2, 3), 'load')
            add(spec('sequence', rule, 3, 1, 3), 'reload')
            add(spec('sequence', rule, 2, 1, 2), 'construct', '2')
            add(spec('sequence', rule, 2, 1, 2), 'refine', 'surplus', max_paths=40)
        add(spec('sequence', 'leja', 2, 1, 2), 'refine', 'aniso', max_paths=40)
        add(spec('sequence', 'rleja', 2, 1, 3), 'construct1')
        add(spec('sequence', 'rleja', 4, 1, 2), 'load')
        for d, l in ((1, 3), (2, 2), (2, 3), (3, 1)):
            add(spec('fourier', 'fourier', d, 1, l), 'load', timeout=300)
        add(spec('fourier', 'fourier', 2, 2, 2, 'iptotal', aniso=1), 'reload', timeout=300)
        add(spec('fourier', 'fourier', 2, 1, 1), 'construct', '3')
        add(spec('fourier', 'fourier', 2, 1, 1), 'refine', 'aniso', max_paths=20)
        for sp in (spec('global', 'clenshaw-curtis', 2, 1, 1), spec('global', 'leja', 2, 2, 1), spec('sequence', 'rleja', 2, 1, 1), spec('sequence', 'min-delta', 2, 1, 2), spec('fourier', 'fourier', 2, 1, 1), spec('localp', 'localp', 2, 1, 1, order=1), spec('localp', 'semi-localp', 2, 1, 1, order=2), spec('localp', 'localp-boundary', 1, 1, 2, order=1)):
            add(sp, 'sym', '3', max_paths=343, time_budget_s=400)
        for t in ('level', 'iptotal', 'ipcurved', 'qphyperbolic'):
            add(spec('fourier', 'fourier', 2, 1, 2, t, aniso=1), 'reupdate', timeout=300); add(spec('global', 'clenshaw-curtis', 2, 1, 3, t, aniso=1), 'reupdate'); add(spec('global', 'leja', 2, 2, 3, t, aniso=1), 'reupdate'); add(spec('sequence', 'rleja', 2, 1, 3, t, aniso=1), 'reupdate'); add(spec('sequence', 'min-delta', 3, 1, 2, t, aniso=1), 'reupdate')
        for rule in LOCAL_RULES: add(spec('localp', rule, 2, 1, 1, order=1), 'mixed', '3', max_paths=12); add(spec('localp', rule, 2, 1, 2, order=2), 'mixed', '2', max_paths=8)
        for rule in ('rleja', 'leja', 'min-delta'): add(spec('sequence', rule, 2, 1, 1), 'mixed', '2', max_paths=12); add(spec('global', rule, 2, 1, 1), 'mixed', '2', max_paths=6)
        for rule in ('clenshaw-curtis', 'fejer2', 'gauss-patterson'): add(spec('global', rule, 2, 1, 1), 'mixed', '3', max_paths=6)
        add(spec('fourier', 'fourier', 2, 1, 1), 'mixed', '3', max_paths=6)
    return cs


def run(tier, seed, only=None):
    cs = filt(configs(tier), only)
    META['bounds'] = {'dims': '1..4', 'depth': '1..4', 'outputs': '1..2', 'path classes per refinement configuration': '12 (quick) / 40 (thorough)', 'history scripts': 'load; overwrite reload; load-refine-load x2 per strategy; construction in batches and point by point; mixed: load, pending refinement, construction, load needed, refine, load; reupdate: load, update with reversed anisotropic weights, load, update, load'}
    ks = [] if only else kconfigs_for(tier, (1, 2, 3))
    META.setdefault('functions_encoded', []).append('RuleLocal::{getParent, getStepParent, getKid, getLevel, getNode, getSupport, getNumPoints, evalRaw, evalSupport} via ir2c + CBMC: hierarchical-basis property of the 1-D rules for ALL point indexes (engine K, CBMC)')
    return runner.run_property('C01', cs, tier, seed, META, ks)
