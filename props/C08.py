import runner
from runner import Config
from common import *

META = {
    'explanation': 'Engine B (fpsym): the limits vector is derived from symbolic reals (each entry in {-1,0,1,2}); the conversion classes are path constraints, so z3 enumerates ALL limit vectors of the box and certifies the enumeration complete '
                   '(this is exhaustive enumeration of a small discrete box certified by the solver). On each class the real make / update / refinement / candidate calls run and every loaded, needed and candidate point must be a node of the 1-D rule '
                   'at a level not exceeding the limit in force; limits given once must persist for later calls that pass none; every call must return within the wall-clock/step bound (termination clause).',
    'functions_encoded': ['TasmanianSparseGrid::{make*Grid, updateGrid, setAnisotropicRefinement, setSurplusRefinement, getCandidateConstructionPoints, loadConstructedPoints, clearLevelLimits, getLevelLimits}',
                          'MultiIndexManipulations::{selectTensors with limits, removeIndexesByLimit}', 'GridGlobal/GridSequence/GridFourier::{setAnisotropicRefinement, updateGrid, getCandidateConstructionPoints}', 'GridLocalPolynomial/GridWavelet::{addChild with limits, getRefinementCanidates}'],
    'assumptions': ['model values concrete; refinement tolerances symbolic in [0,0.3]', 'termination bound: 30 s wall clock per run (normal cost < 0.1 s)', 'dims <= 2 (3 in one configuration)'],
}


def configs(tier):
    cs = []
    def add(sp, ops, pas=0, **kw):
        kw.setdefault('max_paths', 40); kw.setdefault('timeout', 30); kw.setdefault('strategy', 'tree'); kw.setdefault('solver_timeout_ms', 5000)
        cs.append(Config('%s-%s-p%d' % (short(sp), ops.replace(',', '').replace('^', 'l').replace('!', 'n'), pas), 'C08', [sp, ops, pas], **kw))
    if tier == 'quick':
        add(spec('global', 'clenshaw-curtis', 2, 1, 1), 'A,A'); add(spec('global', 'rleja', 2, 1, 2), 'U,Sg', 1); add(spec('global', 'leja', 2, 1, 1), 'K')
        add(spec('sequence', 'rleja', 2, 1, 1), 'A,A'); add(spec('sequence', 'leja', 2, 1, 2), 'Sg,U,X,A', 0, max_paths=24); add(spec('sequence', 'min-delta', 2, 1, 1), 'K', 1)
        add(spec('localp', 'localp', 2, 1, 1, order=1), 'Sc,Sf'); add(spec('localp', 'semi-localp', 2, 1, 1, order=2), 'Ss,Sc', 1); add(spec('localp', 'localp-zero', 2, 1, 1, order=1), 'K')
        add(spec('global', 'clenshaw-curtis', 2, 1, 1), 'A^!,Udv'); add(spec('sequence', 'rleja', 2, 1, 1), 'A^!,Uv'); add(spec('fourier', 'fourier', 2, 1, 1), 'A^!,Udv'); add(spec('localp', 'localp', 2, 1, 1, order=1), 'Sc^!,Sfv')
        # min_growth larger than the number of points the limits leave (0 < left < min_growth): the call proposes the rest and returns; repeated until saturated
        add(spec('sequence', 'leja', 2, 1, 1), 'A4,A4,A4', 0, max_paths=48); add(spec('global', 'rleja', 2, 1, 1), 'A4,A7,A4', 0, max_paths=48); add(spec('fourier', 'fourier', 2, 1, 0), 'A4,A7', 0, max_paths=30); add(spec('sequence', 'rleja', 2, 1, 2), 'A7,A4', 1, max_paths=30)
        # other selection types: the limits test sits in three different selection routines (lower set / general set / full tensor)
        add(spec('global', 'clenshaw-curtis', 2, 1, 3, 'ipcurved', aniso=2), 'Ud'); add(spec('global', 'leja', 2, 1, 2, 'qptotal', aniso=1), 'U'); add(spec('sequence', 'rleja', 2, 1, 2, 'iphyperbolic'), 'U'); add(spec('global', 'clenshaw-curtis', 2, 1, 2, 'tensor'), 'Ud')
        add(spec('wavelet', 'wavelet', 2, 1, 1, order=1), 'Sc'); add(spec('wavelet', 'wavelet', 2, 1, 0, order=3), 'Sc,Sc'); add(spec('wavelet', 'wavelet', 1, 1, 1, order=3), 'Sc,K'); add(spec('fourier', 'fourier', 2, 1, 1), 'A', 0); add(spec('fourier', 'fourier', 2, 1, 1), 'K', 1)
    else:
        for rule in SEQUENCE_RULES: add(spec('sequence', rule, 2, 1, 1), 'A4,A4,A4', 0, max_paths=80); add(spec('sequence', rule, 2, 1, 2), 'A7,A4', 1, max_paths=60)
        add(spec('global', 'rleja', 2, 1, 1), 'A4,A7,A4', 0, max_paths=80); add(spec('global', 'clenshaw-curtis', 2, 1, 1), 'A4,A7', 0, max_paths=60); add(spec('fourier', 'fourier', 2, 1, 0), 'A4,A7', 0, max_paths=60)
        for rule in ('clenshaw-curtis', 'fejer2', 'rleja', 'leja', 'rleja-odd', 'min-delta', 'gauss-patterson', 'rleja-double2'):
            for ops, p in (('A,A', 0), ('U,A', 1), ('A,X,A', 0), ('K', 0), ('K', 1), ('A,U,K', 0)): add(spec('global', rule, 2, 1, 1), ops, p, max_paths=80)
        for rule in ('clenshaw-curtis', 'fejer2', 'rleja', 'leja', 'gauss-patterson', 'gauss-legendre', 'chebyshev'):
            for ops in ('A^!,Udv', 'A^!,Uv', 'U^!,Udv', 'A^!,Av', 'A^!,Ud', 'A^,Udv,A'):
                if rule in ('gauss-legendre', 'chebyshev') and 'A' in ops: continue
                add(spec('global', rule, 2, 1, 1), ops, 0, max_paths=80)
        for t in DEPTH_TYPES:
            for an in ((0, 1, 2) if 'curved' in t else (0, 1)):
                add(spec('global', 'clenshaw-curtis', 2, 1, 3 if 'tensor' not in t else 2, t, aniso=an), 'Ud,U', 0, max_paths=80); add(spec('sequence', 'rleja', 2, 1, 2, t, aniso=an), 'U', 0, max_paths=80)
                add(spec('global', 'leja', 2, 1, 2, t, aniso=an), 'U,A', 1, max_paths=80)
            add(spec('fourier', 'fourier', 2, 1, 2 if 'tensor' not in t else 1, t), 'Ud,U', 0, max_paths=60)
        for rule in ('leja', 'rleja'):
            add(spec('global', rule, 2, 1, 1), 'Sg^!,Udv', 0, max_paths=80); add(spec('sequence', rule, 2, 1, 1), 'Sg^!,Udv', 0, max_paths=80)
            for ops in ('A^!,Udv', 'A^!,Uv', 'U^!,Udv', 'A^!,Av', 'A^,Udv,A'): add(spec('sequence', rule, 2, 1, 1), ops, 0, max_paths=80)
        for ops in ('A^!,Udv', 'A^!,Uv', 'U^!,Udv', 'A^!,Av'): add(spec('fourier', 'fourier', 2, 1, 1), ops, 0, max_paths=60)
        for rule in LOCAL_RULES:
            for ops in ('Sc^!,Sfv', 'Sf^!,Scv', 'Sc^!,K'): add(spec('localp', rule, 2, 1, 1, order=1), ops, 0, max_paths=80)
        add(spec('wavelet', 'wavelet', 2, 1, 1, order=1), 'Sc^!,Scv', 0, max_paths=60)
        for rule in ('leja', 'rleja'):
            add(spec('global', rule, 2, 1, 2), 'Sg,Sg', 0, max_paths=80); add(spec('global', rule, 2, 1, 1), 'Sg,U', 1, max_paths=80)
        for rule in SEQUENCE_RULES:
            for ops, p in (('A,A', 0), ('Sg,A', 1), ('Sg,U,X,Sg', 0), ('K', 0), ('K', 1), ('U,Sg,K', 0)): add(spec('sequence', rule, 2, 1, 1), ops, p, max_paths=80)
        add(spec('sequence', 'rleja', 3, 1, 1), 'A,Sg', 0, max_paths=100)
        for rule in LOCAL_RULES:
            for order in (0, 1, 2):
                if order == 0 and rule != 'localp': continue
                for ops, p in (('Sc,Sf', 0), ('Ss,Sc', 1), ('Sc,X,Sc', 0), ('K', 0), ('K', 1), ('Sf,K', 0)): add(spec('localp', rule, 2, 1, 1, order=order), ops, p, max_paths=80)
        for order in (1, 3):
            for ops, p in (('Sc,Sc', 0), ('Sf', 1), ('K', 0)): add(spec('wavelet', 'wavelet', 2, 1, 1, order=order), ops, p, max_paths=60)
        for ops, p in (('A,A', 0), ('U,A', 1), ('K', 0), ('K', 1)): add(spec('fourier', 'fourier', 2, 1, 1), ops, p, max_paths=60)
    return cs


def run(tier, seed, only=None):
    cs = filt(configs(tier), only)
    META['bounds'] = {'limits': '{-1,0,1,2}^d, all vectors (solver-certified enumeration where coverage_complete)', 'dims': '2 (3 once)', 'calls': '<= 4 after make+load', 'termination bound': '30 s'}
    ks = [] if only else kconfigs_for(tier, (2, 4))
    META.setdefault('functions_encoded', []).append('RuleLocal::{getParent, getStepParent, getKid, getLevel, getNode, getSupport, getNumPoints, evalRaw, evalSupport} via ir2c + CBMC: level of every kid and level/number-of-points consistency for all 1-D points (engine K, CBMC)')
    return runner.run_property('C08', cs, tier, seed, META, ks)
