import re


def spec(family, rule, dims, outputs, depth, type_='level', order=1, aniso=0, limits=0, transform=0, alpha=None, beta=None):
    s = '%s,%s,%d,%d,%d,%s,%d,%d,%d,%d' % (family, rule, dims, outputs, depth, type_, order, aniso, limits, transform)
    if alpha is not None: s += ',%r' % alpha
    if beta is not None: s += ',%r' % beta
    return s


def short(s):
    t = s.split(',')
    fam = {'localp': 'lp', 'global': 'gl', 'sequence': 'sq', 'fourier': 'fr', 'wavelet': 'wv'}[t[0]]
    n = '%s-%s-d%so%sl%s-%s' % (fam, t[1], t[2], t[3], t[4], t[5])
    if t[0] in ('localp', 'wavelet'): n += '-ord%s' % t[6]
    if t[7] != '0': n += '-aw' + (t[7] if t[7] != '1' else '')
    if t[8] != '0': n += '-lim%s' % t[8]
    if t[9] != '0': n += '-tr'
    if len(t) > 10: n += '-a%s' % t[10]
    if len(t) > 11: n += '-b%s' % t[11]
    return n


def filt(cs, only):
    if only: cs = [c for c in cs if re.search(only, c.name)]
    return cs

NESTED_GLOBAL = ['clenshaw-curtis', 'clenshaw-curtis-zero', 'fejer2', 'gauss-patterson', 'leja', 'leja-odd', 'rleja', 'rleja-double2', 'rleja-double4', 'rleja-odd',
                 'rleja-shifted', 'rleja-shifted-even', 'rleja-shifted-double', 'max-lebesgue', 'max-lebesgue-odd', 'min-lebesgue', 'min-lebesgue-odd', 'min-delta', 'min-delta-odd']
SEQUENCE_RULES = ['leja', 'rleja', 'rleja-shifted', 'max-lebesgue', 'min-lebesgue', 'min-delta']
NON_NESTED = ['chebyshev', 'chebyshev-odd', 'gauss-legendre', 'gauss-legendre-odd', 'gauss-chebyshev1', 'gauss-chebyshev1-odd', 'gauss-chebyshev2', 'gauss-chebyshev2-odd',
              'gauss-gegenbauer', 'gauss-gegenbauer-odd', 'gauss-jacobi', 'gauss-jacobi-odd', 'gauss-laguerre', 'gauss-laguerre-odd', 'gauss-hermite', 'gauss-hermite-odd']
LOCAL_RULES = ['localp', 'semi-localp', 'localp-zero', 'localp-boundary']
DEPTH_TYPES = ['level', 'curved', 'iptotal', 'ipcurved', 'qptotal', 'qpcurved', 'hyperbolic', 'iphyperbolic', 'qphyperbolic', 'tensor', 'iptensor', 'qptensor']


def krule(rule, order, check, maxp, unwind=16):
    import kengine
    return kengine.KConfig('K-%s-ord%d-check%d-p%d' % (rule, order, check, maxp), 'K_rule', '-DRULE=%s -DORDER=%d -DMAXP=%d -DCHECK=%d' % (rule, order, maxp, check), unwind=unwind, modv=maxp + 2)

KRULES = ['localp', 'semilocalp', 'localp0', 'localpb']


def kconfigs_for(tier, checks, quick_rules=('localp', 'semilocalp'), quick_orders=(2,), maxp_quick=65, maxp_thorough=257):
    ks = []
    if tier == 'quick':
        for r in quick_rules:
            for o in quick_orders:
                for c in checks: ks.append(krule(r, o, c, maxp_quick))
    else:
        for r in KRULES:
            for o in (1, 2, 3):
                for c in checks: ks.append(krule(r, o, c, maxp_thorough if c != 5 else 129))
        for c in checks:
            if c != 5: ks.append(krule('pwc', 0, c, 243)); ks.append(krule('localp', 4, c, 129)); ks.append(krule('localp0', 5, c, 129))
    return ks


def kmeta(tier):
    import kengine
    maxl = 10 if tier == 'quick' else 22
    return [kengine.KConfig('K-meta-check%d-levels%d' % (c, maxl), 'K_meta', '-DCHECK=%d -DMAXL=%d' % (c, maxl), unwind=40, modv=36, link_lib=True) for c in (1, 2, 3)]


def ksets(tier, checks=(1, 2, 3, 4, 5)):
    """Engine K on the sorted multi-index set algebra (tsgIndexSets.cpp): sizes are enumerated as configurations, contents are symbolic."""
    import kengine
    ks = []
    def add(c, dims, na, nb, maxv, mem=6, slots=2):
        ks.append(kengine.KConfig('K-sets-check%d-d%d-a%db%d-v%d' % (c, dims, na, nb, maxv), 'K_sets', '-DCHECK=%d -DDIMS=%d -DNA=%d -DNB=%d -DMAXV=%d' % (c, dims, na, nb, maxv),
                                  unwind=max(na + nb, dims, 2) + 1, modv=maxv + 2, timeout=1500, mem_gb=mem, slots=slots, order='loop', backends=('minisat', 'kissat')))
    if tier == 'quick':
        add(1, 2, 2, 2, 2); add(2, 2, 2, 1, 2, mem=12, slots=3); add(3, 2, 3, 1, 2); add(4, 2, 2, 2, 2); add(5, 2, 3, 1, 2)
    else:
        for na, nb in ((0, 2), (2, 0), (1, 1), (2, 1), (1, 2), (2, 2), (3, 1), (1, 3), (3, 2), (2, 3), (3, 3)):
            add(1, 2, na, nb, 2)
            if na > 0: add(4, 2, na, nb, 2)
            if na + nb <= 3 or (na, nb) == (2, 2): add(2, 2, na, nb, 2, mem=16, slots=4)   # the set difference grows its result with push_back: 3x1 / 1x3 exceed the memory cap in the witness twin
        for na in (1, 2, 3, 4): add(3, 2, na, 1, 2); add(5, 2, na, 1, 2 if na < 4 else 1)
        for c in (1, 4): add(c, 1, 4, 4, 8); add(c, 3, 2, 2, 1)
        add(2, 1, 2, 2, 4, mem=16, slots=4); add(3, 1, 5, 1, 6); add(3, 3, 3, 1, 1); add(5, 1, 4, 1, 3)
    return ks
