import runner
from runner import Config
from common import *

META = {
    'explanation': 'Engine B (fpsym): the real TasOptimization::ParticleSwarm and ParticleSwarmState (LLVM IR from /repo, instrumented) run with symbolic initial positions and velocities, '
                   'a symbolic random stream in [0,1], a fresh symbolic objective value and a symbolic domain verdict per distinct evaluated point; value comparisons and verdicts are path constraints, '
                   'z3 enumerates path classes and decides, per class, value/position identities (symbol identity) and the ordering obligations (swarm best <= every in-domain evaluation) for all inputs.',
    'functions_encoded': ['TasOptimization::ParticleSwarm', 'ParticleSwarmState::{ctor, clearCache, clearBestParticles, setParticlePositions, getBest*}'],
    'assumptions': ['double arithmetic on symbolic data is interpreted over the reals', 'objective and domain are functions of the point (same point => same symbols), otherwise arbitrary within [-5,5] / {in,out}',
                    'coefficients concrete (inertia 0.5, cognitive 1.5, social 2.0)', 'window of "evaluations so far" restarts at clearCache; after clearBestParticles it consists of the cached values of the current positions',
                    'harness reads the private cache members (-fno-access-control)'],
}


def configs(tier):
    cs = []
    D = '-fno-access-control'
    def add(P, Dm, i1, i2, edit, split, mp, i3=None, edit2=0):
        cs.append(Config('p%dd%d-it%d+%d%s-edit%d%s%s' % (P, Dm, i1, i2, '+%d' % i3 if i3 is not None else '', edit, '%d' % edit2 if i3 is not None else '', '-split' if split else ''), 'C20', [P, Dm, i1, i2, edit, split] + ([i3, edit2] if i3 is not None else []), max_paths=mp, defines=D, strategy='tree', solver_timeout_ms=10000))
    if tier == 'quick':
        add(2, 1, 1, 1, 0, 1, 60); add(2, 1, 1, 1, 2, 0, 60); add(2, 1, 1, 1, 1, 0, 60); add(1, 2, 2, 1, 3, 0, 40); add(2, 2, 1, 1, 0, 0, 40); add(2, 1, 0, 2, 4, 0, 40); add(2, 1, 1, 1, 2, 0, 40, 1, 1); add(1, 1, 1, 1, 1, 0, 30, 0, 2)
    else:
        for P, Dm in ((1, 1), (2, 1), (2, 2), (1, 2)):
            for edit in (0, 1, 2, 3, 4):
                add(P, Dm, 1, 1, edit, 0, 400); add(P, Dm, 2, 1, edit, 0, 400); add(P, Dm, 0, 2, edit, 0, 300)
            for e1, e2 in ((2, 1), (1, 2), (1, 1), (2, 2), (3, 1), (2, 3)): add(P, Dm, 1, 1, e1, 0, 200, 1, e2); add(P, Dm, 0, 1, e1, 0, 150, 0, e2)
            add(P, Dm, 1, 1, 0, 1, 400); add(P, Dm, 1, 2, 0, 1, 400); add(P, Dm, 2, 1, 0, 1, 400)
    return cs


def run(tier, seed, only=None):
    cs = filt(configs(tier), only)
    META['bounds'] = {'particles': '1..2', 'dims': '1..2', 'iterations': '<= 3 split over two calls', 'path classes per configuration': max(c.max_paths for c in cs)}
    return runner.run_property('C20', cs, tier, seed, META)
