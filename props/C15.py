import runner
from runner import Config
from common import *

META = {
    'explanation': 'Engine B (fpsym): the real SampleDREAM<regform|logform> template and TasmanianDREAM state (LLVM IR from /repo, instrumented, ASan) run with a symbolic random stream over the CLOSED interval [0,1], '
                   'symbolic differential weights, initial state, a fresh symbolic probability value and domain verdict per distinct proposal. Chain indexes come from (size_t)(u*chains): the conversion classes, the Metropolis '
                   'comparisons and the verdicts are path constraints; z3 enumerates the classes (branch-tree search, so endpoint draws u=0 and u=1 are constructed) and decides the book-keeping identities for all inputs of a class. '
                   'Memory faults are observed by ASan on the class representative (integer control flow is path-determined).',
    'functions_encoded': ['TasDREAM::SampleDREAM<regform>', 'TasDREAM::SampleDREAM<logform>', 'TasmanianDREAM::{setState, setPDFvalues, getIJKdelta, expandHistory, saveStateHistory, getChainState}', 'applyUniformUpdate', 'applyGaussianUpdate'],
    'assumptions': ['double arithmetic on symbolic data is interpreted over the reals; log/cos/sqrt of symbolic data are uninterpreted (paired by argument)', 'pdf values in [0.05,2] (regform) / [-3,3] (logform), pdf and domain are functions of the point',
                    'acceptance draws are consumed after the batch evaluation in chain order (documented Metropolis step); initial state assumed inside the domain'],
}


def configs(tier):
    cs = []
    def add(C, D, b, c, form, upd, split, mp, reseed=0, iface=0, twice=0, zero=0, **kw):
        cs.append(Config('c%dd%d-b%dc%d-%s-upd%d%s%s%s%s%s' % (C, D, b, c, 'log' if form else 'reg', upd, '-split%d' % split if split else '', '-reseed%d' % reseed if reseed else '', '-capi' if iface else '', '-twice' if twice else '', '-zero' if zero else ''), 'C15', [C, D, b, c, form, upd, split, reseed, iface, twice, zero], max_paths=mp, strategy='tree', solver_timeout_ms=10000, **kw))
    if tier == 'quick':
        add(3, 1, 0, 2, 0, 0, 0, 40, zero=1); add(3, 1, 1, 2, 0, 1, 1, 40, zero=1); add(2, 2, 0, 3, 0, 2, 0, 30, zero=1)   # density exactly zero on half of the points (concrete zeros: 0/0 ratios)
        add(2, 1, 0, 1, 0, 0, 0, 120); add(2, 1, 0, 1, 1, 0, 0, 60); add(3, 1, 0, 1, 0, 0, 0, 60); add(2, 2, 1, 1, 0, 3, 0, 40); add(2, 1, 0, 2, 0, 0, 1, 40); add(3, 1, 0, 2, 0, 2, 1, 40); add(3, 1, 1, 2, 1, 2, 1, 30); add(3, 1, 1, 2, 0, 2, 1, 30, twice=1); add(3, 1, 0, 1, 1, 2, 0, 30, twice=1); add(2, 1, 0, 2, 0, 1, 1, 20, twice=1); add(2, 1, 0, 2, 1, 1, 0, 40, iface=1); add(2, 1, 0, 1, 0, 3, 0, 30, iface=1); add(2, 1, 1, 1, 1, 0, 1, 30, iface=1); add(2, 1, 0, 2, 0, 0, 1, 30, reseed=2); add(2, 1, 0, 2, 1, 0, 1, 30, reseed=1); add(2, 1, 0, 1, 0, 1, 0, 30); add(2, 1, 0, 1, 1, 2, 0, 30)
    else:
        for upd in (0, 1, 2, 3): add(3, 1, 0, 3, 0, upd, 1, 300, zero=1); add(2, 2, 1, 2, 0, upd, 0, 200, zero=1, iface=1)
        add(2, 1, 0, 1, 0, 0, 0, 4000); add(2, 1, 0, 1, 1, 0, 0, 4000)
        add(3, 1, 0, 1, 0, 0, 0, 1500); add(3, 2, 0, 1, 1, 0, 0, 800)
        for form in (0, 1):
            add(2, 1, 1, 1, form, 0, 0, 800); add(2, 2, 0, 2, form, 3, 0, 800); add(2, 1, 0, 2, form, 0, 1, 800); add(2, 1, 1, 2, form, 0, 1, 500)
            add(2, 1, 0, 1, form, 1, 0, 500); add(2, 1, 0, 1, form, 2, 0, 500); add(2, 2, 0, 1, form, 2, 0, 300)
            add(2, 1, 0, 0, form, 0, 0, 100); add(2, 1, 2, 0, form, 0, 0, 300)
            for upd in (0, 1, 2, 3): add(3, 1, 1, 2, form, upd, 1, 200, twice=1); add(3, 1, 0, 1, form, upd, 0, 120, twice=1); add(2, 2, 0, 2, form, upd, 1, 120, twice=1)
            for upd in (0, 1, 2, 3): add(2, 1, 0, 2, form, upd, 0, 300, iface=1); add(2, 2, 1, 2, form, upd, 1, 200, iface=1)
            for rs in (1, 2): add(2, 1, 0, 2, form, 0, 1, 400, reseed=rs); add(2, 2, 1, 2, form, 3, 1, 300, reseed=rs); add(3, 1, 0, 3, form, 0, 2, 300, reseed=rs)
    return cs


def run(tier, seed, only=None):
    cs = filt(configs(tier), only)
    META['bounds'] = {'chains': '2..3', 'dims': '1..2', 'iterations': '<= 3 (burn-up + collect)', 'path classes per configuration': max(c.max_paths for c in cs)}
    return runner.run_property('C15', cs, tier, seed, META)
