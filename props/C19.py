import re
import runner
from runner import Config

META = {
    'explanation': 'Engine B (fpsym): the real TasOptimization::GradientDescent (all three overloads, compiled from /repo to LLVM IR and instrumented) runs with '
                   'symbolic objective values, gradient components, projection outputs, start, tolerance and an iteration cap derived from a symbolic real; '
                   'every floating-point comparison on symbolic data is a path constraint, z3 enumerates the path classes of the input box until the box is covered '
                   '(or the class budget is reached) and decides each obligation for all inputs of the class.',
    'functions_encoded': ['TasOptimization::GradientDescent (adaptive, projected, constant step)', 'TasOptimization::computeStationarityResidual', 'TasOptimization::identity', 'GradientDescentState'],
    'assumptions': ['double arithmetic on symbolic data is interpreted over the reals', 'callbacks return arbitrary values inside the stated boxes (f in [-10,10], g in [-4,4], projection in [-3,3])',
                    'stepsize parameters are concrete, four triples (initial, increase, decrease): (0.5,2,2), (1,3,4), (0.25,1.5,2.5), (2,1.25,8); constant step 0.25'],
}


def configs(tier):
    cs = []
    if tier == 'quick':
        cs.append(Config('adaptive-d1-cap3', 'C19', [0, 1, 3, 0], max_paths=48))
        cs.append(Config('projected-d1-cap3', 'C19', [1, 1, 3, 0], max_paths=48))
        cs.append(Config('constant-d1-cap3-tol', 'C19', [2, 1, 3, 1], max_paths=32))
        cs.append(Config('adaptive-d2-cap2-tol', 'C19', [0, 2, 2, 1], max_paths=32))
        cs.append(Config('adaptive-d1-cap3-dec4', 'C19', [0, 1, 3, 0, 1], max_paths=48)); cs.append(Config('adaptive-d1-cap3-dec8', 'C19', [0, 1, 3, 0, 3], max_paths=32)); cs.append(Config('projected-d1-cap2-dec2.5', 'C19', [1, 1, 2, 0, 2], max_paths=24))
    else:
        for d in (1, 2):
            cs.append(Config('adaptive-d%d-cap4' % d, 'C19', [0, d, 4, 0], max_paths=400))
            cs.append(Config('adaptive-d%d-cap3-tol' % d, 'C19', [0, d, 3, 1], max_paths=400))
            cs.append(Config('projected-d%d-cap4' % d, 'C19', [1, d, 4, 0], max_paths=400))
            cs.append(Config('projected-d%d-cap3-tol' % d, 'C19', [1, d, 3, 1], max_paths=400))
            cs.append(Config('constant-d%d-cap4-tol' % d, 'C19', [2, d, 4, 1], max_paths=200))
            for ps in (1, 2, 3):
                cs.append(Config('adaptive-d%d-cap4-pset%d' % (d, ps), 'C19', [0, d, 4, 0, ps], max_paths=300)); cs.append(Config('projected-d%d-cap3-pset%d' % (d, ps), 'C19', [1, d, 3, 1, ps], max_paths=200))
    return cs


def run(tier, seed, only=None):
    cs = configs(tier)
    if only: cs = [c for c in cs if re.search(only, c.name)]
    META['bounds'] = {'dims': '1..2', 'iteration cap': '0..4 (thorough), 0..3 (quick)', 'path classes per configuration': max(c.max_paths for c in cs)}
    return runner.run_property('C19', cs, tier, seed, META)
