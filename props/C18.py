import runner
from runner import Config
from common import *

META = {
    'explanation': 'Engine B (fpsym), schedule-independent clauses only. (a) CandidateManager runs with SYMBOLIC candidate coordinates (orderings and num_tol near-ties are path classes) and budgets derived from symbolic reals (0 included) through sequences of next / complete / re-assign; '
                   '(b) the real constructSurrogate (parallel with real threads, and sequential) and the threaded loadNeededValues run with a budget derived from a symbolic real and symbolic model values keyed by point: launched samples <= budget, at most one model call per point, '
                   'the loaded value is the symbol the model returned for that point (symbol identity), the final surrogate reproduces the model for all values. Each path class is executed under ONE arbitrary thread schedule.',
    'functions_encoded': ['TasGrid::CandidateManager::{operator=, next, complete, find, sort_candidates}', 'TasGrid::CompleteStorage', 'TasGrid::constructCommon<parallel|sequential>', 'TasGrid::constructSurrogate (3 overloads)', 'TasGrid::loadNeededValues<parallel|sequential>'],
    'assumptions': ['NOT claimed: anything quantified over thread schedules (data races, lost wake-ups, shutdown deadlock, same-thread-id concurrency under all interleavings): no engine here can encode the threaded IR; one schedule per class is executed',
                    'reals instead of doubles on symbolic data', 'termination bound 60 s per run', 'per-run plain/instrumented comparison is skipped for threaded configurations (the set of computed samples depends on the schedule)'],
}


def configs(tier):
    cs = []
    D = '-fno-access-control'
    def man(d, nc, batch, ops, mp):
        cs.append(Config('manager-d%dn%db%d-%s' % (d, nc, batch, ops), 'C18', [0, d, nc, batch, ops], max_paths=mp, defines=D, strategy='tree', solver_timeout_ms=5000, timeout=60))
    def con(sp, par, jobs, batch, mp=12, lat=0, pre=0):
        cs.append(Config('%s-%s-j%db%d%s%s' % (short(sp), 'par' if par else 'seq', jobs, batch, '-lat%d' % lat if lat else '', '-pre%d' % pre if pre else ''), 'C18', [1, sp, par, jobs, batch, lat] + ([pre] if pre else []), max_paths=mp, defines=D, strategy='tree', solver_timeout_ms=5000, timeout=60, validate=not par))
    def lnv(sp, threads, lat=0):
        cs.append(Config('%s-lnv-t%d%s' % (short(sp), threads, '-lat%d' % lat if lat else ''), 'C18', [2, sp, threads, lat], max_paths=1, defines=D, timeout=60, validate=(threads == 0)))
    if tier == 'quick':
        man(1, 3, 2, 'nncn', 60); man(2, 3, 1, 'ncrn', 40); man(1, 2, 2, 'nrnc', 40); man(1, 3, 1, 'nRnc', 60); man(2, 2, 2, 'nnRc', 40)
        con(spec('sequence', 'rleja', 2, 1, 1), 1, 4, 1); con(spec('localp', 'localp', 2, 1, 1, order=1), 1, 2, 2); con(spec('global', 'clenshaw-curtis', 2, 1, 1), 0, 1, 2); con(spec('localp', 'localp', 2, 2, 1, order=1), 0, 1, 1)
        con(spec('localp', 'localp', 2, 1, 1, order=1), 1, 3, 3, 16, lat=1); con(spec('sequence', 'rleja', 2, 1, 1), 1, 4, 2, 16, lat=1); con(spec('fourier', 'fourier', 2, 1, 1), 1, 3, 3, 12, lat=2)   # budgets below jobs x batch with skewed latencies
        con(spec('sequence', 'rleja', 2, 1, 44), 0, 1, 1, 4, pre=12); con(spec('sequence', 'rleja', 2, 1, 44), 1, 2, 1, 4, pre=12)   # >= 1000 loaded points: finished samples are parked in the side storage until a refresh or 20% growth
        lnv(spec('localp', 'localp', 2, 1, 2, order=1), 3); lnv(spec('sequence', 'rleja', 2, 1, 3), 4, 2); lnv(spec('global', 'clenshaw-curtis', 2, 2, 2), 2); lnv(spec('sequence', 'leja', 2, 1, 2), 0)
    else:
        for par, jobs in ((0, 1), (1, 2), (1, 3)): con(spec('sequence', 'rleja', 2, 1, 44), par, jobs, 1, 4, pre=12)   # >= 1000 loaded points
        for ops in ('nncn', 'ncrn', 'nrnc', 'nnnc', 'ncnc', 'rnnc', 'nccr', 'nRnc', 'nnRc', 'ncRn', 'nRcR', 'nRRn'):
            man(1, 3, 2, ops, 400); man(2, 3, 1, ops, 300); man(2, 2, 3, ops, 300)
        for sp in (spec('sequence', 'rleja', 2, 1, 1), spec('sequence', 'leja', 2, 2, 1), spec('global', 'clenshaw-curtis', 2, 1, 1), spec('global', 'leja', 2, 1, 1), spec('localp', 'localp', 2, 1, 1, order=1), spec('localp', 'semi-localp', 2, 1, 1, order=2),
                   spec('localp', 'localp-zero', 2, 2, 1, order=1), spec('fourier', 'fourier', 2, 1, 1), spec('wavelet', 'wavelet', 1, 1, 1, order=1)):
            for par in (0, 1):
                for jobs, batch in ((1, 1), (2, 2), (4, 1), (3, 3)): con(sp, par, jobs, batch, 24)
                if par:
                    for lat in (1, 2): con(sp, par, 3, 3, 24, lat=lat); con(sp, par, 4, 2, 24, lat=lat)
        for sp in (spec('localp', 'localp', 2, 1, 2, order=1), spec('global', 'clenshaw-curtis', 2, 2, 2), spec('sequence', 'leja', 2, 1, 2), spec('fourier', 'fourier', 2, 1, 1), spec('wavelet', 'wavelet', 2, 1, 1, order=1)):
            for t in (0, 1, 3, 8): lnv(sp, t)
            for t in (2, 4): lnv(sp, t, 2)
    return cs


def run(tier, seed, only=None):
    cs = filt(configs(tier), only)
    META['bounds'] = {'candidates': '<= 3 points, dims <= 2, <= 4 manager operations', 'budget': '1..8 (solver-enumerated)', 'jobs': '1..4', 'batch': '1..3', 'threads': '0..8', 'schedules': 'one per path class'}
    return runner.run_property('C18', cs, tier, seed, META)
