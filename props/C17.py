"""C17: constructSurrogate checkpoints let completed work survive a crash at any instant (engine T, sequential mode).
The real function runs natively under strace; the recorded file-system operation trace is the object the solver ranges over:
crash position p and torn length l are z3 integers, the two-file recovery invariant is the assertion. Every solver answer (the
counterexample when sat, a representative of every file-state class when unsat) is materialised on disk and the REAL function is
restarted on it in a fresh process."""
import os, re, sys, json, time, shutil, subprocess
import z3
import build, runner
from common import *

PROP = 'C17'


def decode(s):
    return bytes(int(x, 16) for x in re.findall(r'\\x([0-9a-f]{2})', s))


def record_trace(plain, args, work):
    shutil.rmtree(work, ignore_errors=True); os.makedirs(work)
    tr = os.path.join(work, 'trace.txt')
    cmd = ['strace', '-f', '-xx', '-s', '100000000', '-e', 'trace=openat,write,writev,close,rename,unlink', '-o', tr, plain] + args + [work]
    r = subprocess.run(cmd, capture_output=True, text=True, timeout=300, env=dict(os.environ, ASAN_OPTIONS='detect_leaks=0'))
    events = []; fds = {}
    names = {os.path.join(work, 'ck'): 'ck', os.path.join(work, 'ck_old'): 'old', os.path.join(work, 'calls.log'): 'log'}
    for line in open(tr, errors='replace'):
        m = re.match(r'\d+\s+openat\(AT_FDCWD, "((?:\\x[0-9a-f]{2})*)", ([A-Z_|]+)(?:, \d+)?\)\s+= (-?\d+)', line)
        if m:
            path = decode(m.group(1)).decode(errors='replace'); fd = int(m.group(3))
            if path in names and fd >= 0:
                fds[fd] = names[path]
                if names[path] != 'log': events.append(('open', names[path], 'O_TRUNC' in m.group(2), 'O_RDONLY' in m.group(2)))
            elif fd >= 0: fds.pop(fd, None)
            continue
        m = re.match(r'\d+\s+write\((\d+), "((?:\\x[0-9a-f]{2})*)"(?:\.\.\.)?, (\d+)\)\s+= (-?\d+)', line)
        if m and int(m.group(1)) in fds:
            f = fds[int(m.group(1))]; data = decode(m.group(2))
            if f == 'log': events.append(('call', data.count(b'CALL'), [l.split(b' ', 1)[1].decode() for l in data.split(b'\n') if l.startswith(b'CALL ')]))
            else: events.append(('write', f, data))
            continue
        m = re.match(r'\d+\s+writev\((\d+), \[(.*)\], \d+\)\s+= (-?\d+)', line)   # libstdc++ filebuf writes large blocks with writev
        if m and int(m.group(1)) in fds:
            f = fds[int(m.group(1))]; data = b''.join(decode(x) for x in re.findall(r'iov_base="((?:\\x[0-9a-f]{2})*)"', m.group(2)))
            if int(m.group(3)) >= 0: data = data[:int(m.group(3))]
            if f != 'log' and data: events.append(('write', f, data))
            continue
        m = re.match(r'\d+\s+close\((\d+)\)', line)
        if m and int(m.group(1)) in fds:
            f = fds.pop(int(m.group(1)))
            if f != 'log': events.append(('close', f))
            continue
        m = re.match(r'\d+\s+(rename|unlink)\(', line)
        if m: events.append(('other', line.strip()[:120]))
    return events, r


class TraceModel:
    """file states as functions of the crash position"""
    def __init__(self, events):
        self.ev = events; N = len(events); self.N = N
        # versions: every O_TRUNC open of a file starts a new version; full content = bytes written until its close
        self.ver = {'ck': [0] * (N + 1), 'old': [0] * (N + 1)}; self.len = {'ck': [0] * (N + 1), 'old': [0] * (N + 1)}
        self.full = {'ck': [b''], 'old': [b'']}; self.closed_at = {'ck': [None], 'old': [None]}; self.opened_calls = {'ck': [0], 'old': [0]}
        cur = {'ck': 0, 'old': 0}; ln = {'ck': 0, 'old': 0}; writable = {'ck': False, 'old': False}; calls = 0; self.call_points = []
        self.calls_at = [0] * (N + 1)
        for i, e in enumerate(events):
            if e[0] == 'open' and e[2]:
                f = e[1]; self.full[f].append(b''); self.closed_at[f].append(None); self.opened_calls[f].append(calls); cur[f] = len(self.full[f]) - 1; ln[f] = 0; writable[f] = True
            elif e[0] == 'open': writable[e[1]] = writable[e[1]] and False if e[3] else writable[e[1]]
            elif e[0] == 'write':
                f = e[1]; self.full[f][cur[f]] += e[2]; ln[f] += len(e[2])
            elif e[0] == 'close':
                f = e[1]
                if self.closed_at[f][cur[f]] is None and writable[f]: self.closed_at[f][cur[f]] = i; writable[f] = False
            elif e[0] == 'call': calls += e[1]; self.call_points += e[2]
            for f in ('ck', 'old'): self.ver[f][i + 1] = cur[f]; self.len[f][i + 1] = ln[f]
            self.calls_at[i + 1] = calls
        # logical checkpoints: the persisted states S_k = content of the last version of ck closed before the next model call (non-empty)
        self.B = []; self.B_done = []; self.B_calls = []
        for v in range(1, len(self.full['ck'])):
            c = self.closed_at['ck'][v]
            if c is None or not self.full['ck'][v]: continue
            if self.B and self.calls_at[c] == self.B_calls[-1]:
                self.B[-1] = self.full['ck'][v]; self.B_done[-1] = c   # rewritten before any new sample: same logical state
            else:
                self.B.append(self.full['ck'][v]); self.B_done.append(c); self.B_calls.append(self.calls_at[c])
        # which logical checkpoint does a version hold when complete (-1: not a valid image)
        self.valid = {f: [(-1 if not c else max([k for k, b in enumerate(self.B) if b == c] + [-1])) for c in self.full[f]] for f in ('ck', 'old')}

    def state(self, p, l):
        """(content of ck, content of ck_old) after a crash at position p with l bytes of the write in flight applied"""
        out = {}
        for f in ('ck', 'old'):
            v = self.ver[f][p]; n = self.len[f][p]
            if p < self.N and self.ev[p][0] == 'write' and self.ev[p][1] == f: n += l
            if p < self.N and self.ev[p][0] == 'open' and self.ev[p][2] and self.ev[p][1] == f and l == -1: pass
            out[f] = (v, self.full[f][v][:n])
        return out

    def K(self, p):
        ks = [k for k, c in enumerate(self.B_done) if c < p]
        return max(ks) if ks else -1

    def encode(self):
        p, l = z3.Int('p'), z3.Int('l')
        cs = [p >= 0, p <= self.N]
        tornlen = z3.IntVal(0)
        for i, e in enumerate(self.ev):
            if e[0] == 'write' and len(e[2]) >= 1: tornlen = z3.If(p == i, z3.IntVal(len(e[2]) - 1), tornlen)
        cs += [l >= 0, l <= tornlen]    # l = 0: crash between operations; 1..len-1: torn write
        def table(vals):
            t = z3.IntVal(vals[-1])
            for i in range(len(vals) - 2, -1, -1): t = z3.If(p == i, z3.IntVal(vals[i]), t)
            return t
        avail = {}
        for f in ('ck', 'old'):
            inflight = z3.IntVal(0)
            for i, e in enumerate(self.ev):
                if e[0] == 'write' and e[1] == f: inflight = z3.If(p == i, l, inflight)
            cur_len = table(self.len[f]) + inflight
            fulllen = table([len(self.full[f][v]) for v in self.ver[f]])
            validj = table([self.valid[f][v] for v in self.ver[f]])
            avail[f] = z3.If(cur_len == fulllen, validj, z3.IntVal(-1))
        Kp = table([self.K(q) for q in range(self.N + 1)])
        newest = z3.If(avail['ck'] >= avail['old'], avail['ck'], avail['old'])
        saved = table([(self.B_calls[self.K(q)] if self.K(q) >= 0 else 0) for q in range(self.N + 1)])   # samples contained in the last completed checkpoint
        return p, l, cs, avail, Kp, newest, saved


def materialise(tm, p, l, plain, args, work, second=0):
    """second = k: the restarted run is itself killed at the start of its k-th model call (a second crash, between file-system operations), then restarted again"""
    d = os.path.join(work, 'crash-%d-%d%s' % (p, l, '-s%d' % second if second else '')); shutil.rmtree(d, ignore_errors=True); os.makedirs(d)
    st = tm.state(p, l)
    for f, name in (('ck', 'ck'), ('old', 'ck_old')):
        v, content = st[f]
        if v > 0: open(os.path.join(d, name), 'wb').write(content)
    try:
        if second:
            r = subprocess.run([plain] + args + [d], capture_output=True, text=True, timeout=120, env=dict(os.environ, ASAN_OPTIONS='detect_leaks=0:exitcode=77', VERIF_DIE_AT_CALL=str(second)), errors='replace')
            died = (r.returncode == 9)
        r = subprocess.run([plain] + args + [d], capture_output=True, text=True, timeout=120, env=dict(os.environ, ASAN_OPTIONS='detect_leaks=0:exitcode=77'), errors='replace')
        rc, out, err = r.returncode, r.stdout, r.stderr
    except subprocess.TimeoutExpired:
        rc, out, err = 'timeout', '', ''
    m = re.search(r'RESULT status=(\d+) loaded=(\d+) calls=(\d+) err=(\S+)', out)
    res = {'rc': rc, 'dir': d}
    try: res['recomputed'] = [l.split(' ', 1)[1].strip() for l in open(os.path.join(d, 'calls.log')) if l.startswith('CALL ')]
    except OSError: res['recomputed'] = []
    a = max(avail_of(tm, 'ck', (p, l)), avail_of(tm, 'old', (p, l))); res['image_used'] = a; res['held_by_image'] = tm.call_points[:tm.B_calls[a]] if a >= 0 else []
    if m: res.update(status=int(m.group(1)), loaded=int(m.group(2)), calls=int(m.group(3)), err=float(m.group(4)))
    else: res['stderr'] = err[-600:]
    return res


def classify(tm, p, l, name, probs):
    """history class of a violating crash state (used to identify recorded findings, never to hide an observation)"""
    K = tm.K(p); a = max(avail_of(tm, 'ck', (p, l)), avail_of(tm, 'old', (p, l)))
    if K >= 0 and a < K: return 'no image of the last completed checkpoint exists while <filename> is being rewritten'
    if (name.startswith('gl-') or name.startswith('fr-')) and a >= K: return 'restart from a complete image of a tensor-based grid that holds parked samples'
    return 'other'


def judge(tm, p, l, res, budget, given=0):
    # given: samples the caller put into the grid before the call (pre-seeded configurations); they are loaded but were never launched by the call
    """what the property demands of the restarted run"""
    K = tm.K(p); saved = tm.B_calls[K] if K >= 0 else 0
    problems = []
    if res['rc'] != 0 or 'status' not in res: problems.append('the restarted call does not finish normally (rc=%s %s)' % (res['rc'], res.get('stderr', '')[-200:].replace('\n', ' ')))
    else:
        if res['status'] != 0: problems.append('the restarted call raises an exception')
        if res['err'] > 1e-9: problems.append('the final surrogate does not reproduce the model at its loaded points (err %.2e)' % res['err'])
        if res['loaded'] > budget + given: problems.append('more points loaded (%d) than the budget %d (+%d supplied by the caller)' % (res['loaded'], budget, given))
        again = sorted(set(res.get('recomputed', [])) & set(res.get('held_by_image', [])))
        if again: problems.append('a sample held by the recovered checkpoint image %d is computed again after recovery (%s)' % (res.get('image_used', -1), again[0]))
        if res['calls'] > budget - saved: problems.append('re-computes %d samples although checkpoint %d with %d samples had completed before the crash (at most %d allowed)' % (res['calls'], K, saved, budget - saved))
    return problems


def run_config(name, sp, budget, batch, tier):
    t0 = time.time()
    exe, plain, binfo = build.ensure_harness('C17')
    work = os.path.join(build.BUILD, 'work', PROP, name); args = [sp, str(budget), str(batch)]; given = 1 if str(batch).endswith('p') else 0
    events, r = record_trace(plain, args, work)
    tm = TraceModel(events)
    out = {'config': name, 'events': len(events), 'checkpoints': len(tm.B), 'violations': [], 'replays': 0, 'queries': 0, 'solver_s': 0.0, 'samples': [], 'classes': 0, 'inconclusive': []}
    if r.returncode != 0 or not tm.B:
        out['inconclusive'].append('trace run failed or no checkpoint recorded: rc=%s %s' % (r.returncode, r.stderr[-300:])); out['wall'] = time.time() - t0; return out
    p, l, cs, avail, Kp, newest, saved = tm.encode()
    def ask(extra, label):
        s = z3.Solver(); s.add(*cs); s.add(*extra); t = time.time(); res = s.check(); out['solver_s'] += time.time() - t; out['queries'] += 1
        if res == z3.sat: m = s.model(); return (m.eval(p, model_completion=True).as_long(), m.eval(l, model_completion=True).as_long())
        if res != z3.unsat: out['inconclusive'].append('solver unknown on ' + label)
        return None
    verdicts = {}
    for label, q in (('after a checkpoint holding at least one sample has completed, a crash leaves neither ck nor ck_old holding a complete image', [Kp >= 0, saved >= 1, avail['ck'] == -1, avail['old'] == -1]),
                     ('the newest complete image is older than the last checkpoint completed before the crash', [Kp >= 0, saved >= 1, newest < Kp])):
        cex = ask(q, label); verdicts[label] = cex
        if cex is not None:
            res = materialise(tm, cex[0], cex[1], plain, args, work); out['replays'] += 1
            probs = judge(tm, cex[0], cex[1], res, budget, given)
            ev = tm.ev[cex[0]] if cex[0] < tm.N else ('end',)
            desc = 'crash at trace position %d of %d (%s %s), torn bytes %d; file states: ck=%s, ck_old=%s' % (cex[0], tm.N, ev[0], ev[1] if len(ev) > 1 and isinstance(ev[1], str) else '', cex[1],
                    'image %d' % avail_of(tm, 'ck', cex) if avail_of(tm, 'ck', cex) >= 0 else 'no complete image', 'image %d' % avail_of(tm, 'old', cex) if avail_of(tm, 'old', cex) >= 0 else 'no complete image')
            out['violations'].append({'label': label + ' [' + classify(tm, cex[0], cex[1], name, probs) + ']', 'p': cex[0], 'l': cex[1], 'desc': desc, 'confirmed': bool(probs), 'observed': probs or ['the restarted run met all requirements'], 'recovery': res})
            out['samples'].append({'query': label, 'answer': 'sat', 'crash': desc, 'observed_on_real_code': probs})
        else:
            out['samples'].append({'query': label, 'answer': 'unsat', 'trace_events': tm.N})
    # representatives of the file-state classes (solver-chosen), replayed on the real code as validation of the crash model
    reps = []
    positions = list(range(tm.N + 1))
    if tier == 'quick': positions = positions[::max(1, len(positions) // 14)]
    for q in positions:
        c = ask([p == q], 'class at %d' % q)
        if c: reps.append(c)
        if q < tm.N and tm.ev[q][0] == 'write' and len(tm.ev[q][2]) > 2:
            c = ask([p == q, l >= 1], 'torn class at %d' % q)
            if c: reps.append(c)
            if tier != 'quick' or 'pre' in name:
                c = ask([p == q, l >= len(tm.ev[q][2]) - 1], 'torn-tail class at %d' % q)
                if c: reps.append(c)
    out['classes'] = len(reps)
    known_bad = set((v['p'], v['l']) for v in out['violations']); single_calls = {}
    for (q, tl) in reps:
        res = materialise(tm, q, tl, plain, args, work); out['replays'] += 1
        single_calls[(q, tl)] = res.get('calls', 0)
        probs = judge(tm, q, tl, res, budget, given)
        if probs and (q, tl) not in known_bad:
            # the real code misbehaves on a state the invariant queries did not flag: report with the observation
            ev = tm.ev[q] if q < tm.N else ('end',)
            out['violations'].append({'label': 'restart from a crash state violates the recovery requirements [' + classify(tm, q, tl, name, probs) + ']', 'p': q, 'l': tl, 'desc': 'crash at trace position %d of %d (%s), torn bytes %d' % (q, tm.N, ev[0], tl), 'confirmed': True, 'observed': probs, 'recovery': res})
        shutil.rmtree(res['dir'], ignore_errors=True)
    # two-crash histories: the restarted run recovers, rewrites its initial checkpoint and is killed in its first model call (before any new
    # sample is saved); the next restart must still find an image that holds what the recovered image held
    second = [(q, tl) for (q, tl) in reps if max(avail_of(tm, 'ck', (q, tl)), avail_of(tm, 'old', (q, tl))) >= 0 and (q, tl) not in known_bad]
    if tier == 'quick': second = second[::max(1, len(second) // 6)]
    for (q, tl) in second:
        a = max(avail_of(tm, 'ck', (q, tl)), avail_of(tm, 'old', (q, tl)))
        if tm.B_calls[a] < 1: continue
        res = materialise(tm, q, tl, plain, args, work, second=1); out['replays'] += 1; out['two_crash_histories'] = out.get('two_crash_histories', 0) + 1
        probs = judge(tm, q, tl, res, budget, given)
        # after the second crash the samples of image a are what must survive (the first run may have saved more in a later, torn checkpoint: K(p) is not the reference here)
        probs = [x for x in probs if not x.startswith('re-computes')]
        e2 = res.get('calls', 0) - (budget - tm.B_calls[a]); e1 = single_calls.get((q, tl), 0) - (budget - tm.B_calls[a])
        if e2 > 0 and e1 >= e2:
            # the single-crash restart from the same image already re-computes as many samples: the second crash adds nothing, this is the observation of the single-crash class
            probs.append('re-computes %d samples although the recovered image held %d (at most %d allowed), two-crash history - the single-crash restart from the same image re-computes as many' % (res['calls'], tm.B_calls[a], budget - tm.B_calls[a]))
        elif e2 > 0: probs.append('after a second crash in the first model call of the restarted run: re-computes %d samples although the image it recovered from held %d (at most %d allowed)' % (res['calls'], tm.B_calls[a], budget - tm.B_calls[a]))
        if probs:
            ev = tm.ev[q] if q < tm.N else ('end',)
            out['violations'].append({'label': 'two crashes: restart, crash in the first model call of the restarted run, restart again [' + classify(tm, q, tl, name, probs) + ']', 'p': q, 'l': tl, 'desc': 'first crash at trace position %d of %d (%s), torn bytes %d; second crash at the first model call of the restarted run' % (q, tm.N, ev[0], tl), 'confirmed': True, 'observed': probs})
        shutil.rmtree(res['dir'], ignore_errors=True)
    out['wall'] = time.time() - t0
    shutil.rmtree(work, ignore_errors=True)
    return out


def avail_of(tm, f, cex):
    st = tm.state(cex[0], cex[1])[f]; v, content = st
    return tm.valid[f][v] if content == tm.full[f][v] else -1


def run(tier, seed, only=None):
    t0 = time.time()
    cfgs = [('lp-localp-d2-b6-batch1', spec('localp', 'localp', 2, 1, 1, order=1), 6, 1), ('sq-rleja-d2-b5-batch2', spec('sequence', 'rleja', 2, 1, 1), 5, 2), ('gl-cc-d2-b7-batch1', spec('global', 'clenshaw-curtis', 2, 1, 1), 7, 1)]
    cfgs += [('lp-localp-d2o1-b6-batch1-preseed', spec('localp', 'localp', 2, 1, 1, order=1), 6, '1p'), ('sq-rleja-d2o1-b5-batch1-preseed', spec('sequence', 'rleja', 2, 1, 1), 5, '1p')]   # outputs != dimensions, parked samples in every image
    cfgs += [('sq-rleja-d2o1-pre1035-b4-batch1', spec('sequence', 'rleja', 2, 1, 44), 4, '1L')]   # >= 1000 loaded points: the checkpoint carries finished samples in the trailer behind the grid
    if tier != 'quick':
        cfgs += [('wv-wavelet-d2o1-b6-batch1-preseed', spec('wavelet', 'wavelet', 2, 1, 1, order=1), 6, '1p'), ('lp-semilocalp-d1o2-b5-batch2-preseed', spec('localp', 'semi-localp', 1, 2, 1, order=2), 5, '2p'), ('gl-cc-d2o1-b7-batch1-preseed', spec('global', 'clenshaw-curtis', 2, 1, 1), 7, '1p')]
        cfgs += [('gl-cc-d2-b6-batch1', spec('global', 'clenshaw-curtis', 2, 1, 1), 6, 1), ('gl-rlejadouble2-d2-b9-batch2', spec('global', 'rleja-double2', 2, 1, 2), 9, 2), ('gl-leja-d2-b6-batch1', spec('global', 'leja', 2, 1, 2), 6, 1), ('lp-semilocalp-d2-b6-batch2', spec('localp', 'semi-localp', 2, 1, 1, order=2), 6, 2), ('fr-fourier-d1-b5-batch1', spec('fourier', 'fourier', 1, 1, 1), 5, 1),
                 ('lp-localp-d1-b4-batch1', spec('localp', 'localp', 1, 2, 1, order=1), 4, 1)]
    if only: cfgs = [c for c in cfgs if re.search(only, c[0])]
    try:
        build.ensure_harness('C17')
    except Exception as e:
        print('INCONCLUSIVE property=C17 cannot build: %s' % str(e)[-800:]); return 2
    from concurrent.futures import ProcessPoolExecutor
    with ProcessPoolExecutor(min(8, len(cfgs))) as ex:
        results = list(ex.map(run_config_star, [(c, tier) for c in cfgs]))
    known = runner.load_known(); nviol = 0; known_hit = {}; inconcl = []
    rdir = os.path.join(build.VERIF, 'replay', PROP); os.makedirs(rdir, exist_ok=True)
    for f in os.listdir(rdir):
        if f.startswith(tier + '-'): os.remove(os.path.join(rdir, f))
    unconfirmed = 0
    for r in results:
        for i in r['inconclusive']: inconcl.append((r['config'], i))
        for v in r['violations']:
            if not v['confirmed']: unconfirmed += 1; print('UNCONFIRMED property=C17 config=%s %s -- %s; the restarted real run met all requirements' % (r['config'], v['label'], v['desc'])); continue
            k = runner.match_known(PROP, r['config'], {'label': v['label'] + ' :: ' + '; '.join(v['observed'])}, known)
            if k: known_hit.setdefault(k['id'], (k, []))[1].append((r, v)); continue
            nviol += 1; path = os.path.join(rdir, '%s-%d.json' % (tier, nviol))
            json.dump({'property': PROP, 'config': r['config'], 'violation': v}, open(path, 'w'), indent=1)
            print('VIOLATION property=C17 replay=%s' % path); print('  config=%s %s: %s -> %s' % (r['config'], v['label'], v['desc'], '; '.join(v['observed'])))
    for kid, (k, lst) in sorted(known_hit.items()):
        print('KNOWN-FINDING: property=C17 %s [%s; re-derived on %d crash states, e.g. %s]' % (k['what'], kid, len(lst), lst[0][1]['desc']))
    for c, i in inconcl[:8]: print('INCONCLUSIVE property=C17 config=%s %s' % (c, i))
    cov = {'explanation': __doc__, 'functions_encoded': ['TasGrid::constructCommon<mode_sequential> (native, traced)', 'TasmanianSparseGrid::{writeBinary, readBinary}', 'CompleteStorage::{write, read}', 'checkpoint() lambda'],
           'bounds': {'mode': 'sequential', 'budget': '4..6 samples', 'batch': '1..2', 'crash model': 'operations before p took effect; a file opened with truncation and not yet closed holds a strict prefix of the bytes written so far (torn write: l of len bytes); other files untouched; one crash per history'},
           'rule': 'one case = one (crash position, torn length) class of the recorded trace, decided by z3 against the two-file invariant and replayed on the real code; non-trivial = the class contains a write in flight or an open/close boundary of a checkpoint file',
           'evaluations': max(1, sum(r['replays'] + r['queries'] for r in results)), 'distinct_nontrivial': sum(r['classes'] for r in results), 'obligations': sum(r['queries'] for r in results), 'discharged': sum(r['queries'] for r in results) - len(inconcl),
           'states': max(1, sum(r['classes'] for r in results)), 'transitions': max(1, sum(r['events'] for r in results)), 'traces_validated_against_impl': sum(r['replays'] for r in results),
           'queries_discharged': sum(r['queries'] for r in results), 'solver_time_s': round(sum(r['solver_s'] for r in results), 3), 'configurations': len(results),
           'per_configuration': [{k: r[k] for k in ('config', 'events', 'checkpoints', 'classes', 'replays', 'queries')} | {'wall_s': round(r.get('wall', 0), 1), 'violations': [{'label': v['label'], 'desc': v['desc'], 'observed': v['observed']} for v in r['violations'][:4]]} for r in results],
           'samples': [s for r in results for s in r['samples']][:10] or [{'note': 'none'}], 'known_findings_rederived': sorted(known_hit),
           'checker_cmd': './check C17 --tier %s' % tier, 'trusted_base': ['strace 6.x syscall trace', 'the crash model stated in bounds', 'z3', 'trace parser']}
    ev = {'property_id': PROP, 'tier': tier, 'seed': int(seed), 'level': 'other', 'coverage': cov, 'assumptions': ['crash model as stated; kernel/page-cache effects below close() not modelled', 'parallel mode not covered', 'single crash per history (a crash during the recovery run itself is a second history)'],
          'wall_s': round(time.time() - t0, 2), 'violations': nviol}
    os.makedirs(os.path.join(build.VERIF, 'evidence'), exist_ok=True)
    json.dump(ev, open(os.path.join(build.VERIF, 'evidence', PROP + '.json'), 'w'), indent=1)
    print('C17 %s: %d configurations, %d trace events, %d crash classes replayed on the real code, %d solver queries, %d violations, %d known findings, %d unconfirmed, %d inconclusive, %.1fs' % (
        tier, len(results), sum(r['events'] for r in results), sum(r['replays'] for r in results), sum(r['queries'] for r in results), nviol, len(known_hit), unconfirmed, len(inconcl), time.time() - t0))
    if nviol: return 1
    if inconcl or unconfirmed: return 2
    return 0


def run_config_star(a):
    (name, sp, budget, batch), tier = a
    return run_config(name, sp, budget, batch, tier)
