import runner
from runner import Config
from common import *

META = {
    'explanation': 'Engine B (fpsym): evaluate(x) and differentiate(x) run at a SYMBOLIC point x with symbolic values; the driver differentiates the normal form of evaluate(x) EXACTLY with respect to each coordinate symbol (polynomial rules, quotient/chain rules for division, sqrt, cos/sin atoms) '
                   'and z3 bounds differentiate(x)[k][j] - d/dx_j evaluate(x)[k] over the interior of every path cell (kinks of |.| and support edges are class boundaries, so each class is a region where the surrogate is smooth). This replaces the finite-difference oracle of the statement by the exact derivative for every member '
                   'of the surrogate space. Mode 2 additionally checks exactness on the reproduced function space; linear domain transforms exercise the chain rule.',
    'functions_encoded': ['TasmanianSparseGrid::{differentiate, evaluate, loadNeededValues}', 'GridLocalPolynomial::differentiate + RuleLocal::{diffRaw, diffSupport, diffPWQuadratic, diffPWCubic, diffPWPower, scaleDiffX}', 'GridGlobal::differentiate + CacheLagrangeDerivative', 'GridSequence::{differentiate, cacheBasisDerivatives}',
                          'GridFourier::differentiate', 'GridWavelet::differentiate + RuleWavelet::eval<1>'],
    'assumptions': ['reals instead of doubles on symbolic data; tolerance 1e-9 x (number of symbols) x 2^depth (derivatives of local bases scale with the level)', 'cell boundaries excluded (as the statement says): classes are open regions up to the band the solver reaches',
                    'Wavelet with concrete values', 'conformal maps outside the claim (the code itself throws)', 'degree bounds as in C03'],
}


def configs(tier):
    cs = []
    def add(sp, mode, mp=1, **kw):
        kw.setdefault('solver_timeout_ms', 30000)
        cs.append(Config('%s-m%d' % (short(sp), mode), 'C03', [sp, mode], max_paths=mp, **kw))
    if tier == 'quick':
        add(spec('localp', 'localp', 2, 1, 2, order=1), 1, 16); add(spec('localp', 'localp', 1, 1, 3, order=2), 1, 12); add(spec('localp', 'semi-localp', 1, 1, 3, order=3), 1, 12); add(spec('localp', 'localp-zero', 1, 1, 2, order=4), 1, 10); add(spec('localp', 'localp-zero', 1, 1, 4, order=5), 1, 40); add(spec('localp', 'localp', 1, 1, 5, order=6), 1, 40); add(spec('localp', 'semi-localp', 1, 1, 5, order=-1), 1, 40)
        add(spec('localp', 'localp-boundary', 2, 1, 1, order=-1, transform=1), 1, 10); add(spec('localp', 'localp', 2, 1, 1, order=1), 2, 8)
        add(spec('global', 'clenshaw-curtis', 3, 1, 2), 1); add(spec('global', 'leja', 4, 1, 2), 2); add(spec('sequence', 'rleja', 3, 2, 2), 1); add(spec('global', 'gauss-legendre', 3, 1, 2, transform=1), 2)   # >= 3 dimensions: the tensor-product loops of the derivative weights
        add(spec('global', 'clenshaw-curtis', 2, 1, 2), 1); add(spec('global', 'gauss-legendre', 1, 2, 4, transform=1), 1); add(spec('global', 'clenshaw-curtis', 2, 2, 2, transform=1), 1); add(spec('localp', 'localp', 2, 2, 2, order=1, transform=1), 1, 24); add(spec('sequence', 'rleja', 2, 3, 2, transform=1), 1); add(spec('global', 'leja', 2, 1, 3), 2)
        add(spec('sequence', 'rleja', 2, 1, 3), 1); add(spec('sequence', 'leja', 2, 1, 3, limits=1), 1); add(spec('sequence', 'rleja', 2, 2, 1), 1); add(spec('global', 'clenshaw-curtis', 2, 1, 3, limits=2), 1); add(spec('sequence', 'min-delta', 2, 1, 4, 'iptotal', aniso=1, limits=2), 2)   # directions whose largest level is 0 / 1 / 2
        add(spec('sequence', 'min-lebesgue', 1, 1, 6, transform=1), 2)
        # chain rule under a domain transform for the rule families that have their own Jacobian branch (unbounded domains: shift + rate)
        add(spec('global', 'gauss-hermite', 2, 1, 2, transform=1, alpha=0.0), 1); add(spec('global', 'gauss-hermite-odd', 1, 2, 2, transform=1, alpha=1.0), 1); add(spec('global', 'gauss-laguerre', 2, 1, 2, transform=1, alpha=0.5), 1); add(spec('global', 'gauss-laguerre-odd', 1, 1, 2, transform=1, alpha=0.0), 1)
        add(spec('global', 'gauss-chebyshev1', 1, 1, 3, transform=1), 1); add(spec('global', 'gauss-jacobi', 2, 1, 2, transform=1, alpha=0.5, beta=1.0), 2); add(spec('fourier', 'fourier', 2, 1, 1, transform=1), 1)
        add(spec('fourier', 'fourier', 1, 1, 1), 1); add(spec('fourier', 'fourier', 2, 1, 1), 2)
        add(spec('wavelet', 'wavelet', 1, 1, 2, order=1), 1, 12)
    else:
        for rule in LOCAL_RULES:
            for order in (-1, 1, 2, 3, 4, 5):
                add(spec('localp', rule, 1, 1, 4, order=order), 1, 80); add(spec('localp', rule, 2, 1, 2, order=order), 1, 120); add(spec('localp', rule, 2, 2, 2, order=order, transform=1), 1, 120)
                if rule != 'localp-zero': add(spec('localp', rule, 2, 1, 2, order=order), 2, 60)
        for rule in NESTED_GLOBAL[:10] + ['gauss-legendre', 'chebyshev', 'gauss-chebyshev2', 'gauss-hermite', 'gauss-laguerre']:
            if rule == 'clenshaw-curtis-zero': continue
            fast = rule in ('clenshaw-curtis', 'fejer2', 'gauss-patterson', 'rleja-double2', 'rleja-double4')
            tr = 1
            for dep in (0, 1): add(spec('global', rule, 2, 1, dep, transform=tr), 1)
            add(spec('global', rule, 3, 1, 2, transform=tr), 1); add(spec('global', rule, 3, 2, 2), 2); add(spec('global', rule, 4, 1, 1 if fast else 2), 1)
            add(spec('global', rule, 2, 1, 2 if fast else 3, limits=1), 1); add(spec('global', rule, 2, 1, 3 if fast else 4, limits=2), 2)
            add(spec('global', rule, 1, 1, 3 if fast else 8, transform=tr), 1); add(spec('global', rule, 2, 2, 2 if fast else 4), 1); add(spec('global', rule, 2, 1, 2 if fast else 3, transform=tr), 2)
        for rule in SEQUENCE_RULES:
            for lim in (1, 2): add(spec('sequence', rule, 2, 1, 3, limits=lim), 1); add(spec('sequence', rule, 2, 1, 4, 'iptotal', aniso=1, limits=lim, transform=1), 2)
            for dep in (0, 1, 2): add(spec('sequence', rule, 2, 2, dep), 1); add(spec('sequence', rule, 3, 1, dep), 2)
            add(spec('sequence', rule, 4, 1, 2), 1)
            add(spec('sequence', rule, 1, 1, 10, transform=1), 1); add(spec('sequence', rule, 2, 2, 5), 1); add(spec('sequence', rule, 3, 1, 3), 1); add(spec('sequence', rule, 2, 1, 4, transform=1), 2)
        add(spec('fourier', 'fourier', 1, 1, 1), 1); add(spec('fourier', 'fourier', 1, 2, 2), 1, solver_timeout_ms=120000); add(spec('fourier', 'fourier', 2, 1, 1), 1); add(spec('fourier', 'fourier', 2, 1, 1), 2); add(spec('fourier', 'fourier', 1, 1, 2), 2, solver_timeout_ms=120000)
        for order in (1, 3): add(spec('wavelet', 'wavelet', 1, 1, 2, order=order), 1, 60); add(spec('wavelet', 'wavelet', 2, 1, 1, order=order), 1, 80)
    return cs


def run(tier, seed, only=None):
    cs = filt(configs(tier), only)
    META['bounds'] = {'dims': '1..3', 'orders': '-1,1..5 (generic Lagrange-product derivative from order 4)', 'cells per configuration': '<= 120', 'degree per direction': '<= 16 (1-D) / <= 8 (2-D)'}
    return runner.run_property('C05', cs, tier, seed, META)
