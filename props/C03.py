import runner
from runner import Config
from common import *

META = {
    'explanation': 'Engine B (fpsym): the evaluation point x is SYMBOLIC (one real per dimension over the whole domain) together with the coefficients of the test function: all polynomials of getGlobalPolynomialSpace(true) (Global, Sequence), all trigonometric modes '
                   'attached to grid points (Fourier, via cos/sin atoms reduced modulo sin^2 = 1 - cos^2), all affine functions (Local Polynomial). evaluate(x) and the interpolation-weight sum are normalised to polynomials in (x, coefficients); z3 bounds the residual over the '
                   'whole cell (interval relaxation in QF_LRA, else QF_NRA). Cells of piecewise bases (support tests and |.| kinks are path constraints) are enumerated by the solver until the domain box is covered or the cell budget is reached.',
    'functions_encoded': ['TasmanianSparseGrid::{evaluate, getInterpolationWeights, loadNeededValues, getGlobalPolynomialSpace}', 'GridGlobal::{evaluate, getInterpolationWeights} + CacheLagrange', 'GridSequence::{evaluate, recomputeSurpluses, cacheBasisValues}', 'GridFourier::{evaluate, computeBasis, calculateFourierCoefficients}',
                          'GridLocalPolynomial::{evaluate, walkTree, evalBasisSupported}', 'RuleLocal::{evalRaw, evalSupport, scaleX}', 'GridWavelet::evaluate + RuleWavelet::eval'],
    'assumptions': ['reals instead of doubles on symbolic data; tolerance 1e-9 x sum of |monomial| bounds', 'degree bounds: <= 16 per direction (1-D), <= 8 (2-D) - above that the monomial-basis residual is too ill-conditioned for the relaxation',
                    'Wavelet: affine functions with concrete coefficients, evaluate only', 'clenshaw-curtis-zero and localp-zero have no constants: weight-sum clause not applied; clenshaw-curtis-zero polynomial space not checked', 'Fourier without domain transform; Fourier interpolation weights at a symbolic x (rational trigonometric expressions) not claimed'],
}


def configs(tier):
    cs = []
    def add(sp, mp=1, hist=0, **kw):
        kw.setdefault('solver_timeout_ms', 30000)
        cs.append(Config(short(sp) + ('-hist%d' % hist if hist else ''), 'C03', [sp, 0, hist], max_paths=mp, **kw))
    if tier == 'quick':
        add(spec('global', 'clenshaw-curtis', 2, 1, 2)); add(spec('global', 'gauss-legendre', 2, 1, 3)); add(spec('global', 'leja', 2, 2, 3, 'iptotal', aniso=1)); add(spec('global', 'chebyshev', 1, 1, 6)); add(spec('global', 'fejer2', 2, 1, 2, transform=1))
        add(spec('sequence', 'rleja', 2, 1, 4)); add(spec('sequence', 'min-delta', 1, 1, 8)); add(spec('sequence', 'leja', 3, 1, 2))
        add(spec('fourier', 'fourier', 1, 1, 1)); add(spec('fourier', 'fourier', 2, 1, 1))
        add(spec('localp', 'localp', 2, 1, 2, order=1), 16); add(spec('localp', 'semi-localp', 1, 1, 3, order=2), 12); add(spec('localp', 'localp-boundary', 2, 1, 1, order=1), 12); add(spec('localp', 'localp-boundary', 3, 1, 2, order=1), 24); add(spec('localp', 'semi-localp', 3, 1, 2, order=2), 24); add(spec('localp', 'localp', 3, 1, 2, order=1), 16); add(spec('localp', 'localp', 1, 1, 3, order=3), 12)
        add(spec('localp', 'localp', 3, 1, 3, order=1), 30); add(spec('localp', 'semi-localp', 3, 1, 3, order=-1), 20); add(spec('localp', 'localp-boundary', 3, 1, 2, order=2), 20)   # ancestor chains of length >= 3 in the Kronecker path (levels 2 and 3)
        add(spec('wavelet', 'wavelet', 1, 2, 1, order=1), 10)
        # the same exactness on grids reached through update / copy / round trip (rules that use alpha and beta included)
        add(spec('global', 'gauss-jacobi', 2, 1, 3, alpha=2.0, beta=0.5), hist=1); add(spec('global', 'gauss-hermite', 2, 1, 3, alpha=2.0), hist=1); add(spec('global', 'clenshaw-curtis', 2, 1, 2), hist=2)
        add(spec('sequence', 'leja', 2, 3, 3), hist=4); add(spec('localp', 'localp', 2, 2, 2, order=1), 16, hist=4); add(spec('localp', 'semi-localp', 2, 3, 2, order=2), 12, hist=4)   # several outputs, incremental surplus updates
        add(spec('global', 'gauss-gegenbauer', 2, 1, 3, alpha=1.5), hist=3); add(spec('sequence', 'rleja', 2, 1, 4), hist=1); add(spec('fourier', 'fourier', 2, 1, 1), hist=1)
    else:
        for rule in SEQUENCE_RULES: add(spec('sequence', rule, 2, 3, 3), hist=4); add(spec('sequence', rule, 3, 2, 2, transform=1), hist=4)
        for rule in ('localp', 'semi-localp', 'localp-boundary'):   # (localp-zero does not contain the affine functions; Global / Fourier point-by-point delivery is the open C09 finding)
            for order in (1, 2): add(spec('localp', rule, 2, 2, 2, order=order), 60, hist=4); add(spec('localp', rule, 1, 3, 3, order=order), 40, hist=4)
        for h in (1, 2, 3):
            for rule, ab in (('gauss-jacobi', (2.0, 0.5)), ('gauss-jacobi-odd', (0.0, 3.0)), ('gauss-gegenbauer', (1.5, None)), ('gauss-hermite', (2.0, None)), ('gauss-laguerre', (1.0, None)), ('gauss-legendre', (None, None)),
                             ('clenshaw-curtis', (None, None)), ('leja', (None, None)), ('chebyshev', (None, None)), ('gauss-patterson', (None, None))):
                unb = 'laguerre' in rule or 'hermite' in rule
                add(spec('global', rule, 2, 1, 2 if rule in ('clenshaw-curtis', 'gauss-patterson', 'gauss-jacobi-odd') else 3, alpha=ab[0], beta=ab[1]), hist=h)
                if not unb: add(spec('global', rule, 2, 2, 2, 'iptotal', aniso=1, transform=1, alpha=ab[0], beta=ab[1]), hist=h)
            add(spec('sequence', 'rleja', 2, 1, 4), hist=h); add(spec('sequence', 'min-delta', 2, 2, 3, transform=1), hist=h); add(spec('fourier', 'fourier', 2, 1, 1), hist=h); add(spec('fourier', 'fourier', 1, 1, 2), hist=h)
        for rule in NESTED_GLOBAL + NON_NESTED:
            if rule == 'clenshaw-curtis-zero': continue
            fast = rule in ('clenshaw-curtis', 'fejer2', 'gauss-patterson', 'rleja-double2', 'rleja-double4', 'rleja-shifted-double')
            odd = rule.endswith('-odd') or rule == 'rleja-shifted-even'    # two points per level: degree 2*level
            unb = 'laguerre' in rule or 'hermite' in rule      # far-out nodes: keep the degree low (conditioning of the monomial basis)
            d1 = 3 if fast else ((3 if unb else 6) if odd else (6 if unb else 10)); d2 = (1 if rule == 'rleja-shifted-double' else 2) if fast else (2 if odd else (3 if unb else 5))
            add(spec('global', rule, 1, 1, d1), solver_timeout_ms=60000); add(spec('global', rule, 2, 1, d2)); add(spec('global', rule, 2, 2, min(d2, 3), 'iptotal', aniso=1))
            if 'hermite' not in rule and 'laguerre' not in rule: add(spec('global', rule, 2, 1, 1 if (rule == 'rleja-shifted-double' or odd) else 2, transform=1))
        add(spec('global', 'clenshaw-curtis', 3, 1, 2)); add(spec('global', 'leja', 3, 1, 3))
        for t in DEPTH_TYPES: add(spec('global', 'leja', 2, 1, 4 if 'tensor' not in t else 2, t, aniso=1))
        for rule in SEQUENCE_RULES:
            add(spec('sequence', rule, 1, 1, 12), solver_timeout_ms=60000); add(spec('sequence', rule, 2, 1, 6)); add(spec('sequence', rule, 3, 2, 3)); add(spec('sequence', rule, 2, 1, 4, transform=1, limits=2))
        add(spec('fourier', 'fourier', 1, 1, 1)); add(spec('fourier', 'fourier', 1, 1, 2), solver_timeout_ms=120000); add(spec('fourier', 'fourier', 2, 1, 1)); add(spec('fourier', 'fourier', 2, 1, 2, 'iptotal', aniso=1), solver_timeout_ms=120000)
        for rule in ('localp', 'semi-localp', 'localp-boundary'):
            for order in (-1, 1, 2, 3, 4):
                add(spec('localp', rule, 1, 1, 4, order=order), 64); add(spec('localp', rule, 2, 1, 2, order=order), 128); add(spec('localp', rule, 2, 2, 3, order=order, transform=1), 200)
            add(spec('localp', rule, 3, 1, 1, order=1), 100); add(spec('localp', rule, 3, 1, 2, order=1), 150); add(spec('localp', rule, 3, 2, 2, order=2, transform=1), 150); add(spec('localp', rule, 4, 1, 2, order=3), 80)
        for order in (1, 3): add(spec('wavelet', 'wavelet', 1, 2, 2, order=order), 60); add(spec('wavelet', 'wavelet', 2, 3, 1, order=order), 80)
    return cs


def run(tier, seed, only=None):
    cs = filt(configs(tier), only)
    META['bounds'] = {'dims': '1..3', 'degree per direction': '<= 16 (1-D) / <= 8 (2-D)', 'cells per configuration': '<= 200', 'x': 'whole (transformed) domain box incl. boundary and nodes as their own classes where the solver reaches them'}
    ks = [] if only else kmeta(tier)
    META.setdefault('functions_encoded', []).append('OneDimensionalMeta::{getNumPoints, getIExact, getQExact} for all 35 global rules via ir2c + CBMC (table consistency, no signed overflow up to the level bound)')
    return runner.run_property('C03', cs, tier, seed, META, ks)
