// Runtime of engine B (fpsym). Compiled WITHOUT the instrumentation pass and linked into both the
// instrumented and the plain build of a harness. In the plain build no __fpsym_* hook is ever called,
// all shadows are 0 and the record contains concrete values only.
#include <cstdio>
#include <cstdlib>
#include <cstring>
#include <cstdint>
#include <cmath>
#include <vector>
#include <string>
#include <map>
#include <unordered_map>
#include <atomic>
#include <iostream>
#include <sstream>
#include <malloc.h>
#include <unistd.h>

namespace {
struct Node{ int op; uint64_t a,b; double c; };
// op: 0 const, 1 sym(a = user id), 11 add, 12 sub, 13 mul, 14 div, 15 rem, 50 neg, 100+f math (1 or 2 args)
std::vector<Node> nodes(1);
std::unordered_map<uintptr_t,uint64_t> shadow;   // address of a double -> node id
struct Cmp{ int pred; uint64_t a,b; long res; };
std::vector<Cmp> pc;
struct Obl{ int kind; uint64_t a,b; double va,vb,scale; std::string label; long aux; };
std::vector<Obl> obls;
struct Chk{ int cond; std::string label; };
std::vector<Chk> checks;
struct Out{ std::string tag; uint64_t id; double v; };
std::vector<Out> outs;
struct Sym{ int id; double lo,hi,v; uint64_t node; };
std::vector<Sym> syms; std::unordered_map<int,size_t> symidx;
std::vector<std::pair<std::string,long>> notes;
std::vector<long> rec_ints, replay_ints; size_t replay_pos=0; bool replay_loaded=false;
std::string assumed_away; bool has_assumed=false;
long escapes=0, nan_true=0, steps=0, maxsteps=0, symops=0; std::string escape_what;
bool dumped=false;
thread_local uint64_t targs[64]; thread_local int tvalid=0; thread_local uint64_t tret[2];
std::atomic_flag lk = ATOMIC_FLAG_INIT;
struct Guard{ Guard(){ while(lk.test_and_set(std::memory_order_acquire)){} } ~Guard(){ lk.clear(std::memory_order_release);} };

struct Key{ int op; uint64_t a,b; bool operator==(const Key&o)const{return op==o.op&&a==o.a&&b==o.b;} };
struct KeyH{ size_t operator()(const Key&k)const{ return std::hash<uint64_t>()(k.a*1000003u ^ (k.b*7919u) ^ (uint64_t)k.op<<56); } };
std::unordered_map<Key,uint64_t,KeyH> cons;
std::unordered_map<uint64_t,uint64_t> kcons;
uint64_t mk(int op,uint64_t a,uint64_t b,double c){
  Key k{op,a,b}; auto it=cons.find(k); if(it!=cons.end()) return it->second;
  nodes.push_back({op,a,b,c}); cons[k]=nodes.size()-1; return nodes.size()-1; }
uint64_t K(double c){ uint64_t bits; memcpy(&bits,&c,8); auto it=kcons.find(bits); if(it!=kcons.end()) return it->second; nodes.push_back({0,0,0,c}); kcons[bits]=nodes.size()-1; return nodes.size()-1; }
std::unordered_map<int,double> overrides; bool ov_loaded=false;
void load_overrides(){ if(ov_loaded) return; ov_loaded=true; if(const char*fn=getenv("FPSYM_INPUTS")){ FILE*f=fopen(fn,"r"); if(f){ int i; char buf[128]; while(fscanf(f,"%d %127s",&i,buf)==2) overrides[i]=strtod(buf,0); fclose(f);} }
  if(const char*ms=getenv("FPSYM_MAXSTEPS")) maxsteps=atol(ms); }
std::string esc(const std::string&s){ std::string r; for(char ch:s){ if(ch=='"'||ch=='\\'){ r+='\\'; r+=ch; } else if((unsigned char)ch<32) r+=' '; else r+=ch; } return r; }
void dump(const char*status);
struct Init{ Init(){ load_overrides(); } } init_;
// side tape for binary stream round trips: (streambuf*, byte offset) -> shadow
std::map<std::pair<uintptr_t,long>,uint64_t> tape;
}

extern "C" {
void fpsym_finish(void);
int __fpsym_enter(){ int v=tvalid; tvalid=0; long s=++steps; if(maxsteps && s>maxsteps){ Guard g; dump("step_budget"); _exit(3);} return v; }
uint64_t __fpsym_getarg(int i,int valid){ return (valid && i<64)? targs[i]:0; }
void __fpsym_setarg(int i,uint64_t s){ if (i<0){ tvalid=1; return;} if (i<64) targs[i]=s; }
void __fpsym_postcall(){ tvalid=0; }
uint64_t __fpsym_getret(int i){ return tret[i]; }
void __fpsym_setret(uint64_t a,uint64_t b){ tret[0]=a; tret[1]=b; }
void __fpsym_clearret(){ tret[0]=tret[1]=0; }
uint64_t __fpsym_bin(int opc,uint64_t sa,uint64_t sb,double a,double b,double r){
  if(!(sa|sb)) return 0;
  // exact real-arithmetic simplifications with a concrete operand
  if(opc==3){ if((!sa && a==0.0)||(!sb && b==0.0)) return 0; if(!sa && a==1.0) return sb; if(!sb && b==1.0) return sa; }
  if(opc==1){ if(!sa && a==0.0) return sb; if(!sb && b==0.0) return sa; }
  if(opc==2){ if(!sb && b==0.0) return sa; if(sa && sa==sb) return 0; }
  if(opc==4){ if(!sb && b==1.0) return sa; if(!sa && a==0.0) return 0; }
  Guard g; symops++; if(!sa) sa=K(a); if(!sb) sb=K(b);
  if((opc==1||opc==3) && sa>sb){ uint64_t t=sa; sa=sb; sb=t; }
  return mk(10+opc,sa,sb,r); }
uint64_t __fpsym_neg(uint64_t sa,double a){ if(!sa) return 0; Guard g; return mk(50,sa,0,-a); }
void __fpsym_cmp(int pred,uint64_t sa,uint64_t sb,double a,double b,int res){ if(!(sa|sb)) return; Guard g;
  if(pred==8||pred==7){ if((pred==8 && res)||(pred==7 && !res)) nan_true++; return; }   // uno / ord : NaN guards
  if(sa==sb){ return; }
  if((!sa && a!=a)||(!sb && b!=b)) return;   // a CONCRETE NaN operand: the outcome of the comparison does not depend on the symbolic side, no constraint
  if(!sa) sa=K(a); if(!sb) sb=K(b); pc.push_back({pred,sa,sb,res}); }
void __fpsym_toint(uint64_t sa,double a,long v,int sgn){ if(!sa) return; Guard g; pc.push_back({100+sgn,sa,0,v}); }
uint64_t __fpsym_load(char*p){ if (shadow.empty()) return 0; Guard g; auto it=shadow.find((uintptr_t)p); return it==shadow.end()?0:it->second; }
void __fpsym_store(char*p,uint64_t s){ if(s){ Guard g; shadow[(uintptr_t)p]=s; } else if(!shadow.empty()){ Guard g; shadow.erase((uintptr_t)p); } }
void __fpsym_memcpy(char*d,char*s,uint64_t n){ if (shadow.empty()||d==s||n==0) return; Guard g;
  std::vector<std::pair<uint64_t,uint64_t>> tmp;
  if (n > shadow.size()*16){ for(auto&kv:shadow){ if(kv.first>=(uintptr_t)s && kv.first<(uintptr_t)s+n) tmp.push_back({kv.first-(uintptr_t)s,kv.second}); }
    for(auto it=shadow.begin();it!=shadow.end();){ if(it->first>=(uintptr_t)d && it->first<(uintptr_t)d+n) it=shadow.erase(it); else ++it; } }
  else { for(uint64_t o=0;o<n;o++){ auto it=shadow.find((uintptr_t)(s+o)); if(it!=shadow.end()) tmp.push_back({o,it->second}); }
    for(uint64_t o=0;o<n;o++) shadow.erase((uintptr_t)(d+o)); }
  for(auto&t:tmp) shadow[(uintptr_t)(d+t.first)]=t.second; }
void __fpsym_memset(char*d,uint64_t n){ if (shadow.empty()||n==0) return; Guard g;
  if (n > shadow.size()*16){ for(auto it=shadow.begin();it!=shadow.end();){ if(it->first>=(uintptr_t)d && it->first<(uintptr_t)d+n) it=shadow.erase(it); else ++it; } }
  else for(uint64_t o=0;o<n;o++) shadow.erase((uintptr_t)(d+o)); }
void __fpsym_free(char*p){ if(!p||shadow.empty()) return; size_t n=malloc_usable_size(p); __fpsym_memset(p,n); }
uint64_t __fpsym_math1(int f,uint64_t sa,double a,double r){ if(!sa) return 0; Guard g;
  if(f==1){ // fabs: the sign of the argument becomes a path constraint (cells split at the kink), the value stays polynomial
    int nonneg = (a >= 0.0); pc.push_back({3 /*oge*/, sa, K(0.0), nonneg}); return nonneg ? sa : mk(50,sa,0,-a); }
  return mk(100+f,sa,0,r); }
uint64_t __fpsym_math2(int f,uint64_t sa,uint64_t sb,double a,double b,double r){ if(!(sa|sb)) return 0; Guard g; if(!sa) sa=K(a); if(!sb) sb=K(b); return mk(100+f,sa,sb,r); }
void __fpsym_escape(uint64_t s,int what){ if(s){ Guard g; escapes++; escape_what += std::to_string(what)+","; } }
// binary stream tape: ostream::write / istream::read carry shadows of 8-byte aligned doubles
void __fpsym_oswrite(void*os,char*p,int64_t n){ if(shadow.empty()||n<8) return; std::ostream*o=(std::ostream*)os; long pos=(long)o->tellp(); if(pos<0) { Guard g; for(int64_t k=0;k+8<=n;k+=8) if(shadow.count((uintptr_t)(p+k))){ escapes++; escape_what+="oswrite,"; break;} return; }
  uintptr_t sb=(uintptr_t)o->rdbuf(); Guard g; for(int64_t k=0;k+8<=n;k+=8){ auto it=shadow.find((uintptr_t)(p+k)); if(it!=shadow.end()) tape[{sb,pos+k}]=it->second; else tape.erase({sb,pos+k}); } }
long __fpsym_isread_pre(void*is){ if(tape.empty()) return -1; std::istream*i=(std::istream*)is; return (long)i->tellg(); }
void __fpsym_isread_post(void*is,char*p,int64_t n,long pos){ if(tape.empty()||pos<0) return; std::istream*i=(std::istream*)is; uintptr_t sb=(uintptr_t)i->rdbuf(); Guard g;
  for(int64_t k=0;k+8<=n;k+=8){ auto it=tape.find({sb,pos+k}); if(it!=tape.end()) shadow[(uintptr_t)(p+k)]=it->second; else shadow.erase((uintptr_t)(p+k)); } }

// ASCII stream tape: ostream << double / istream >> double carry the shadow keyed by (streambuf, byte offset of the first character of
// the token). The reader's offset is taken after the leading white space that the extraction would skip anyway (skipws streams only).
void __fpsym_ascwrite(void*os,uint64_t s){ if(!s && tape.empty()) return; std::ostream*o=(std::ostream*)os; long pos=(long)o->tellp();
  if(pos<0){ if(s){ Guard g; escapes++; escape_what+="asc-write,"; } return; }
  uintptr_t sb=(uintptr_t)o->rdbuf(); Guard g; if(s) tape[{sb,-1-pos}]=s; else tape.erase({sb,-1-pos}); }
long __fpsym_ascread_pre(void*is){ if(tape.empty()) return -1; std::istream*i=(std::istream*)is; if(!i->good() || !(i->flags() & std::ios_base::skipws)) return -1;
  while(true){ int c=i->peek(); if(c==EOF) return -1; if(c==' '||c=='\n'||c=='\t'||c=='\r'||c=='\v'||c=='\f') i->get(); else break; }
  return (long)i->tellg(); }
void __fpsym_ascread_post(void*is,char*p,long pos){ if(tape.empty()) return; std::istream*i=(std::istream*)is; uintptr_t sb=(uintptr_t)i->rdbuf(); Guard g;
  auto it = pos<0 ? tape.end() : tape.find({sb,-1-pos}); if(it!=tape.end() && !i->fail()) shadow[(uintptr_t)p]=it->second; else shadow.erase((uintptr_t)p); }

// ---------------- harness API (callable from instrumented and plain code) ----------------
double fpsym_symbolic(double c,int idx,double lo,double hi){ Guard g; load_overrides();
  auto si=symidx.find(idx); if(si!=symidx.end()){ tret[0]=syms[si->second].node; tret[1]=0; return syms[si->second].v; }
  auto it=overrides.find(idx); if(it!=overrides.end()) c=it->second;
  nodes.push_back({1,(uint64_t)idx,0,c}); uint64_t id=nodes.size()-1; symidx[idx]=syms.size(); syms.push_back({idx,lo,hi,c,id}); tret[0]=id; tret[1]=0; return c; }
static uint64_t A(int i){ return tvalid? targs[i]:0; }
void fpsym_eq(double a,double b,double scale,const char*label){ Guard g; obls.push_back({0,A(0),A(1),a,b,scale,label,0}); tvalid=0; }
void fpsym_le(double a,double b,double scale,const char*label){ Guard g; obls.push_back({1,A(0),A(1),a,b,scale,label,0}); tvalid=0; }
void fpsym_ident(double a,double b,const char*label){ Guard g; obls.push_back({2,A(0),A(1),a,b,0,label,0}); tvalid=0; }
void fpsym_nonconst(double v,const char*label){ Guard g; obls.push_back({3,A(0),0,v,0,0,label,0}); tvalid=0; }
void fpsym_deriv(double jac,double val,double scale,int symid,const char*label){ Guard g; obls.push_back({4,A(0),A(1),jac,val,scale,label,(long)symid}); tvalid=0; }
void fpsym_check(int cond,const char*label){ Guard g; checks.push_back({cond,label}); tvalid=0; }
void fpsym_output(double v,const char*tag){ Guard g; outs.push_back({tag,A(0),v}); tvalid=0; }
void fpsym_note(const char*key,long v){ Guard g; notes.push_back({key,v}); tvalid=0; }
double fpsym_concrete(double v){ tvalid=0; tret[0]=tret[1]=0; return v; }
// harness-internal integers that depend on expression identity (e.g. numbering of distinct points): recorded on the explored run,
// replayed verbatim on the plain build so that both builds use the same symbol for the same point
long fpsym_recorded(long computed){ Guard g; tvalid=0;
  if(!replay_loaded){ replay_loaded=true; if(const char*fn=getenv("FPSYM_REPLAY_INTS")){ FILE*f=fopen(fn,"r"); if(f){ long v; while(fscanf(f,"%ld",&v)==1) replay_ints.push_back(v); fclose(f);} } }
  long r = computed; if(replay_pos < replay_ints.size()) r = replay_ints[replay_pos]; replay_pos++;
  rec_ints.push_back(r); return r; }
long fpsym_exprid(double v){ long r=(long)A(0); tvalid=0; return r; }
long fpsym_pc_size(void){ return (long)pc.size(); }
void fpsym_assume(int cond,const char*label){ tvalid=0; if(cond) return; { Guard g; has_assumed=true; assumed_away=label; dump("assumed_away"); } _exit(0); }
void fpsym_finish(void){ Guard g; dump("ok"); }
}

namespace {
void dump(const char*status){ if(dumped) return; dumped=true; const char*fn=getenv("FPSYM_OUT"); if(!fn) fn="fpsym_out.json"; FILE*f=fopen(fn,"w"); if(!f) return;
  std::vector<char> mark(nodes.size(),0); std::vector<uint64_t> st;
  for(auto&o:outs) st.push_back(o.id); for(auto&o:obls){ st.push_back(o.a); st.push_back(o.b);} for(auto&c:pc){st.push_back(c.a);st.push_back(c.b);} for(auto&s:syms) st.push_back(s.node);
  while(!st.empty()){ uint64_t i=st.back(); st.pop_back(); if(!i||mark[i]) continue; mark[i]=1; if(nodes[i].op>=10){ st.push_back(nodes[i].a); st.push_back(nodes[i].b);} }
  fprintf(f,"{\"status\":\"%s\",\"nodes\":[",status); bool first=true;
  for(size_t i=1;i<nodes.size();i++) if(mark[i]){ fprintf(f,"%s[%zu,%d,%lu,%lu,\"%a\"]",first?"":",",i,nodes[i].op,nodes[i].a,nodes[i].b,nodes[i].c); first=false; }
  fprintf(f,"],\n\"syms\":["); for(size_t i=0;i<syms.size();i++) fprintf(f,"%s[%d,\"%a\",\"%a\",\"%a\",%lu]",i?",":"",syms[i].id,syms[i].lo,syms[i].hi,syms[i].v,syms[i].node);
  fprintf(f,"],\n\"pc\":["); for(size_t i=0;i<pc.size();i++) fprintf(f,"%s[%d,%lu,%lu,%ld]",i?",":"",pc[i].pred,pc[i].a,pc[i].b,pc[i].res);
  fprintf(f,"],\n\"obl\":["); for(size_t i=0;i<obls.size();i++) fprintf(f,"%s[%d,%lu,%lu,\"%a\",\"%a\",\"%a\",\"%s\",%ld]",i?",":"",obls[i].kind,obls[i].a,obls[i].b,obls[i].va,obls[i].vb,obls[i].scale,esc(obls[i].label).c_str(),obls[i].aux);
  fprintf(f,"],\n\"checks\":["); for(size_t i=0;i<checks.size();i++) fprintf(f,"%s[%d,\"%s\"]",i?",":"",checks[i].cond,esc(checks[i].label).c_str());
  fprintf(f,"],\n\"outs\":["); for(size_t i=0;i<outs.size();i++) fprintf(f,"%s[\"%s\",%lu,\"%a\"]",i?",":"",esc(outs[i].tag).c_str(),outs[i].id,outs[i].v);
  fprintf(f,"],\n\"notes\":["); for(size_t i=0;i<notes.size();i++) fprintf(f,"%s[\"%s\",%ld]",i?",":"",esc(notes[i].first).c_str(),notes[i].second);
  fprintf(f,"],\n\"ints\":["); for(size_t i=0;i<rec_ints.size();i++) fprintf(f,"%s%ld",i?",":"",rec_ints[i]);
  fprintf(f,"],\n\"assumed_away\":\"%s\",\"escapes\":%ld,\"escape_what\":\"%s\",\"nan_true\":%ld,\"steps\":%ld,\"total_nodes\":%zu,\"symops\":%ld}\n",esc(assumed_away).c_str(),escapes,esc(escape_what).c_str(),nan_true,steps,nodes.size(),symops); fclose(f); }
}
