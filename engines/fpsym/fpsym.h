// Harness-side API of engine B (fpsym): shadow-symbolic execution of floating-point data.
// The same harness source is built twice: instrumented (every double carries a shadow expression id) and
// plain (no pass; every shadow is 0, the runtime then records concrete values only -> used for replay and
// for the per-run translator validation).
#ifndef FPSYM_H
#define FPSYM_H
#include <cstdio>
#include <cstdlib>
#include <cstring>
#include <string>
#include <vector>
extern "C" {
// a fresh symbolic real with concrete default value `dflt` (overridden by the driver's input file),
// ranging over the closed box [lo, hi]
double fpsym_symbolic(double dflt, int id, double lo, double hi);
// obligation: for all inputs of this path class |a - b| <= tol * scale   (tol chosen by the driver)
void fpsym_eq(double a, double b, double scale, const char *label);
// obligation: for all inputs of this path class a <= b + tol*scale
void fpsym_le(double a, double b, double scale, const char *label);
// obligation: a and b are the same function of the symbols (zero residual normal form) - symbol identity
void fpsym_ident(double a, double b, const char *label);
// obligation: jac is the partial derivative of val with respect to the symbol `symid`, for all inputs of this path class
// (the driver differentiates the expression of val exactly and compares within tol*scale)
void fpsym_deriv(double jac, double val, double scale, int symid, const char *label);
// integer / structural fact that must hold on this path class (concrete; integers are path-determined)
void fpsym_check(int cond, const char *label);
// published output: compared bit-for-bit between the instrumented and the plain build
void fpsym_output(double v, const char *tag);
// vacuity witness: `v` must depend on at least one symbol (driver asks the solver for two inputs that differ)
void fpsym_nonconst(double v, const char *label);
// the concrete value of v on this run with its shadow stripped (for harness-internal bookkeeping such as look-up keys;
// never used to compute an operand of an obligation)
double fpsym_concrete(double v);
// identity of the expression carried by v (0 when v is concrete); equal ids <=> syntactically identical expression.
// Harness-internal look-ups key on it so that a coincidence of concrete values on the class representative does not merge points.
long fpsym_exprid(double v);
// an integer the harness derived from expression identities (numbering of distinct points ...): recorded on the explored run and
// replayed verbatim when a counterexample is re-run on the plain build (where all expression ids are 0)
long fpsym_recorded(long computed);
// integer meta-data for evidence (sizes, counts)
void fpsym_note(const char *key, long v);
// inputs violating cond are outside the claim: the run stops here and the class is recorded as "assumed away"
void fpsym_assume(int cond, const char *label);
// write the record to $FPSYM_OUT and leave
void fpsym_finish(void);
// number of symbolic comparison atoms recorded so far (to attribute atoms to program phases)
long fpsym_pc_size(void);
}
#include <utility>
typedef std::pair<long, double> fpsym_key_t;
static inline fpsym_key_t fpsym_key(double v){ long id = fpsym_exprid(v); return id ? fpsym_key_t(id, 0.0) : fpsym_key_t(0, fpsym_concrete(v)); }
static inline std::vector<fpsym_key_t> fpsym_keys(const std::vector<double> &x){ std::vector<fpsym_key_t> k(x.size()); for (size_t j=0;j<x.size();j++) k[j] = fpsym_key(x[j]); return k; }
// small integer derived from a symbolic real: values 0..n-1 ; the fptosi below is instrumented, so the
// value class joins the path condition and the solver enumerates all n classes
static inline int fpsym_choice(int id, int n, int dflt){
  double r = fpsym_symbolic(dflt + 0.5, id, 0.0, (double) n - 0.0009765625);
  int k = (int) r;
  if (k < 0) k = 0;
  if (k >= n) k = n - 1;
  return k;
}
// boolean derived from a symbolic real in [0,1]: r > 0.5
static inline bool fpsym_flag(int id, bool dflt){
  double r = fpsym_symbolic(dflt ? 0.75 : 0.25, id, 0.0, 1.0);
  return r > 0.5;
}
#endif
