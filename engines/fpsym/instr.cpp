// Engine B (fpsym): LLVM-14 pass giving every double-typed SSA value a 64-bit shadow (0 = concrete, else the id
// of a node in the expression DAG kept by rt.cpp). Usage: instr in.bc out.bc
#include "llvm/IR/LLVMContext.h"
#include "llvm/IR/Module.h"
#include "llvm/IR/IRBuilder.h"
#include "llvm/IR/Instructions.h"
#include "llvm/IR/IntrinsicInst.h"
#include "llvm/IR/CFG.h"
#include "llvm/IR/Verifier.h"
#include "llvm/IRReader/IRReader.h"
#include "llvm/Bitcode/BitcodeWriter.h"
#include "llvm/Support/SourceMgr.h"
#include "llvm/Support/FileSystem.h"
#include "llvm/Support/raw_ostream.h"
#include "llvm/ADT/PostOrderIterator.h"
#include "llvm/Transforms/Utils/BasicBlockUtils.h"
#include <map>
#include <set>
using namespace llvm;

static LLVMContext Ctx;
static Module *Mod;
static Type *I64, *I32, *I8P, *DblTy, *VoidTy, *I1;
static FunctionCallee fnGetArg, fnSetArg, fnGetRet, fnSetRet, fnClearRet, fnBin, fnNeg, fnCmp, fnToInt, fnLoad, fnStore, fnMemcpy, fnMemset, fnMath1, fnMath2, fnEscape, fnFree, fnEnter, fnPost, fnOsWrite, fnIsPre, fnIsPost, fnAscWrite, fnAscPre, fnAscPost;
static int unknownFP = 0;
static std::set<std::string> instrumentedElsewhere; // functions defined (and instrumented) in other translation units

static bool isD(Type *t){ return t->isDoubleTy(); }
static bool isDD(Type *t){ if (auto *s = dyn_cast<StructType>(t)) return s->getNumElements()==2 && isD(s->getElementType(0)) && isD(s->getElementType(1)); return false; }
static bool hasFPVec(Type *t){ if (auto *v = dyn_cast<VectorType>(t)) return v->getElementType()->isFloatingPointTy(); return false; }

static int mathId(StringRef n){
  static std::map<std::string,int> m = {{"fabs",1},{"llvm.fabs.f64",1},{"sqrt",2},{"llvm.sqrt.f64",2},{"cos",3},{"llvm.cos.f64",3},{"sin",4},{"llvm.sin.f64",4},{"exp",5},{"llvm.exp.f64",5},{"log",6},{"llvm.log.f64",6},{"floor",7},{"llvm.floor.f64",7},{"ceil",8},{"llvm.ceil.f64",8},{"lgamma",9},{"tgamma",10},{"acos",11},{"asin",12},{"atan",13},{"tan",14},{"log2",15},{"llvm.log2.f64",15},{"log10",16},{"llvm.log10.f64",16},{"cosh",17},{"sinh",18},{"tanh",19},{"round",20},{"llvm.round.f64",20},{"trunc",21},{"llvm.trunc.f64",21},{"rint",22},{"llvm.rint.f64",22},{"nearbyint",22},{"llvm.nearbyint.f64",22},{"exp2",23},{"llvm.exp2.f64",23},{"erf",24},{"erfc",25},{"expm1",26},{"log1p",27},{"cbrt",28},
    {"pow",100},{"llvm.pow.f64",100},{"atan2",101},{"fmod",102},{"llvm.maxnum.f64",103},{"llvm.minnum.f64",104},{"fmax",103},{"fmin",104},{"copysign",105},{"llvm.copysign.f64",105},{"hypot",106},{"cabs",106},{"llvm.fmuladd.f64",200},{"llvm.fma.f64",200},{"fma",200}};
  auto it = m.find(n.str()); return it==m.end()?0:it->second;
}
static int binCode(unsigned opc){ switch(opc){ case Instruction::FAdd: return 1; case Instruction::FSub: return 2; case Instruction::FMul: return 3; case Instruction::FDiv: return 4; case Instruction::FRem: return 5; } return 0; }

struct FInstr {
  Function &F; DenseMap<Value*, Value*> sh; DenseMap<Value*, std::pair<Value*,Value*>> sh2; // {double,double}
  std::vector<std::pair<PHINode*,PHINode*>> phis; std::vector<std::tuple<PHINode*,PHINode*,PHINode*>> phis2;
  FInstr(Function &f):F(f){}
  Value* Z(){ return ConstantInt::get(I64,0); }
  Value* S(Value *v){ if (isa<Constant>(v)) return Z(); auto it=sh.find(v); if (it!=sh.end()) return it->second; return Z(); }
  std::pair<Value*,Value*> S2(Value *v){ auto it=sh2.find(v); if (it!=sh2.end()) return it->second; return {Z(),Z()}; }
  void run(){
    BasicBlock &entry = F.getEntryBlock();
    IRBuilder<> B(&*entry.getFirstInsertionPt());
    Value *valid = B.CreateCall(fnEnter, {});
    unsigned idx=0; for (auto &A : F.args()){ if (isD(A.getType())){ sh[&A] = B.CreateCall(fnGetArg, {ConstantInt::get(I32,idx), valid}); } idx++; }
    ReversePostOrderTraversal<Function*> RPOT(&F);
    std::vector<BasicBlock*> order(RPOT.begin(), RPOT.end());
    for (auto *BB : order) for (auto &I : *BB) if (auto *P = dyn_cast<PHINode>(&I)){
      if (isD(P->getType())){ auto *SP = PHINode::Create(I64, P->getNumIncomingValues(), "", P); sh[P]=SP; phis.push_back({P,SP}); }
      else if (isDD(P->getType())){ auto *A = PHINode::Create(I64, P->getNumIncomingValues(), "", P); auto *Bq = PHINode::Create(I64, P->getNumIncomingValues(), "", P); sh2[P]={A,Bq}; phis2.push_back({P,A,Bq}); }
    }
    for (auto *BB : order){
      std::vector<Instruction*> insts; for (auto &I : *BB) insts.push_back(&I);
      for (auto *I : insts) visit(I);
    }
    for (auto &pp : phis){ for (unsigned i=0;i<pp.first->getNumIncomingValues();i++) pp.second->addIncoming(S(pp.first->getIncomingValue(i)), pp.first->getIncomingBlock(i)); }
    for (auto &pp : phis2){ for (unsigned i=0;i<std::get<0>(pp)->getNumIncomingValues();i++){ auto s=S2(std::get<0>(pp)->getIncomingValue(i)); std::get<1>(pp)->addIncoming(s.first, std::get<0>(pp)->getIncomingBlock(i)); std::get<2>(pp)->addIncoming(s.second, std::get<0>(pp)->getIncomingBlock(i)); } }
  }
  Instruction* after(Instruction *I){ if (auto *II = dyn_cast<InvokeInst>(I)) return &*II->getNormalDest()->getFirstInsertionPt(); return I->getNextNode(); }
  void visit(Instruction *I){
    if (isa<PHINode>(I)) return;
    if (hasFPVec(I->getType())){ errs()<<"fpsym: FP vector instruction in "<<F.getName()<<": "<<*I<<"\n"; unknownFP++; return; }
    if (auto *BO = dyn_cast<BinaryOperator>(I)){
      if (!isD(BO->getType())) return;
      int code = binCode(BO->getOpcode()); if (!code){ errs()<<"fpsym: unknown FP binop "<<*I<<"\n"; unknownFP++; return; }
      IRBuilder<> B(after(I));
      sh[I] = B.CreateCall(fnBin, {ConstantInt::get(I32, code), S(BO->getOperand(0)), S(BO->getOperand(1)), BO->getOperand(0), BO->getOperand(1), I});
      return; }
    if (auto *U = dyn_cast<UnaryOperator>(I)){ if (U->getOpcode()==Instruction::FNeg && isD(U->getType())){ IRBuilder<> B(after(I)); sh[I]=B.CreateCall(fnNeg,{S(U->getOperand(0)), U->getOperand(0)}); } return; }
    if (auto *C = dyn_cast<FCmpInst>(I)){ if (!isD(C->getOperand(0)->getType())) return; IRBuilder<> B(after(I));
      B.CreateCall(fnCmp, {ConstantInt::get(I32, C->getPredicate()), S(C->getOperand(0)), S(C->getOperand(1)), C->getOperand(0), C->getOperand(1), B.CreateZExt(I, I32)}); return; }
    if (isa<FPToSIInst>(I) || isa<FPToUIInst>(I)){ if (!isD(I->getOperand(0)->getType()) || !I->getType()->isIntegerTy()) return; IRBuilder<> B(after(I));
      bool sg = isa<FPToSIInst>(I);
      Value *ext = sg ? B.CreateSExtOrTrunc(I, I64) : B.CreateZExtOrTrunc(I, I64);
      B.CreateCall(fnToInt, {S(I->getOperand(0)), I->getOperand(0), ext, ConstantInt::get(I32, sg?0:1)}); return; }
    if (isa<FPExtInst>(I)){ if (isD(I->getOperand(0)->getType())){ IRBuilder<> B(I); B.CreateCall(fnEscape,{S(I->getOperand(0)), ConstantInt::get(I32,6)}); } return; }
    if (isa<FPTruncInst>(I)){ if (isD(I->getOperand(0)->getType())){ IRBuilder<> B(I); B.CreateCall(fnEscape,{S(I->getOperand(0)), ConstantInt::get(I32,1)}); } return; }
    if (auto *L = dyn_cast<LoadInst>(I)){
      if (isD(L->getType())){ IRBuilder<> B(after(I)); sh[I]=B.CreateCall(fnLoad,{B.CreateBitCast(L->getPointerOperand(), I8P)}); }
      else if (isDD(L->getType())){ IRBuilder<> B(after(I)); Value *p=B.CreateBitCast(L->getPointerOperand(), I8P); Value *a=B.CreateCall(fnLoad,{p}); Value *b=B.CreateCall(fnLoad,{B.CreateConstGEP1_32(Type::getInt8Ty(Ctx),p,8)}); sh2[I]={a,b}; }
      else if (L->getType()->isIntegerTy(64)){ IRBuilder<> B(after(I)); Value *s=B.CreateCall(fnLoad,{B.CreateBitCast(L->getPointerOperand(), I8P)}); B.CreateCall(fnEscape,{s, ConstantInt::get(I32,2)}); }
      return; }
    if (auto *St = dyn_cast<StoreInst>(I)){
      Value *v=St->getValueOperand();
      if (isD(v->getType())){ IRBuilder<> B(I); B.CreateCall(fnStore,{B.CreateBitCast(St->getPointerOperand(), I8P), S(v)}); }
      else if (isDD(v->getType())){ IRBuilder<> B(I); auto s=S2(v); Value *p=B.CreateBitCast(St->getPointerOperand(), I8P); B.CreateCall(fnStore,{p,s.first}); B.CreateCall(fnStore,{B.CreateConstGEP1_32(Type::getInt8Ty(Ctx),p,8), s.second}); }
      else if (v->getType()->isIntegerTy(64) || v->getType()->isPointerTy()){ IRBuilder<> B(I); B.CreateCall(fnStore,{B.CreateBitCast(St->getPointerOperand(), I8P), Z()}); }
      return; }
    if (auto *Sel = dyn_cast<SelectInst>(I)){ if (isD(Sel->getType())){ IRBuilder<> B(after(I)); sh[I]=B.CreateSelect(Sel->getCondition(), S(Sel->getTrueValue()), S(Sel->getFalseValue())); }
      else if (isDD(Sel->getType())){ IRBuilder<> B(after(I)); auto a=S2(Sel->getTrueValue()), b=S2(Sel->getFalseValue()); sh2[I]={B.CreateSelect(Sel->getCondition(),a.first,b.first), B.CreateSelect(Sel->getCondition(),a.second,b.second)}; } return; }
    if (auto *EV = dyn_cast<ExtractValueInst>(I)){ if (isDD(EV->getAggregateOperand()->getType()) && EV->getNumIndices()==1){ auto s=S2(EV->getAggregateOperand()); sh[I] = EV->getIndices()[0]==0? s.first : s.second; } return; }
    if (auto *IV = dyn_cast<InsertValueInst>(I)){ if (isDD(IV->getType()) && IV->getNumIndices()==1){ auto s=S2(IV->getAggregateOperand()); if (isa<Constant>(IV->getAggregateOperand())) s={Z(),Z()}; if (IV->getIndices()[0]==0) s.first=S(IV->getInsertedValueOperand()); else s.second=S(IV->getInsertedValueOperand()); sh2[I]=s; } return; }
    if (auto *BC = dyn_cast<BitCastInst>(I)){ if (isD(BC->getOperand(0)->getType())){ IRBuilder<> B(I); B.CreateCall(fnEscape,{S(BC->getOperand(0)), ConstantInt::get(I32,3)}); } return; }
    if (auto *R = dyn_cast<ReturnInst>(I)){ if (Value *rv=R->getReturnValue()){ IRBuilder<> B(I); if (isD(rv->getType())) B.CreateCall(fnSetRet,{S(rv), Z()}); else if (isDD(rv->getType())){ auto s=S2(rv); B.CreateCall(fnSetRet,{s.first,s.second}); } } return; }
    if (auto *CB = dyn_cast<CallBase>(I)){
      Function *callee = dyn_cast_or_null<Function>(CB->getCalledOperand()->stripPointerCasts());
      StringRef name = callee? callee->getName() : "";
      if (name.startswith("__fpsym_")) return;
      if (name=="__asan_memcpy"||name=="__asan_memmove"){ IRBuilder<> B(I); B.CreateCall(fnMemcpy,{B.CreateBitCast(CB->getArgOperand(0),I8P), B.CreateBitCast(CB->getArgOperand(1),I8P), B.CreateZExtOrTrunc(CB->getArgOperand(2), I64)}); return; }
      if (name=="__asan_memset"){ IRBuilder<> B(I); B.CreateCall(fnMemset,{B.CreateBitCast(CB->getArgOperand(0),I8P), B.CreateZExtOrTrunc(CB->getArgOperand(2), I64)}); return; }
      if (name.startswith("__asan_") || name.startswith("__ubsan_") || name.startswith("__sanitizer")) return;
      if (auto *MI = dyn_cast<MemIntrinsic>(I)){ IRBuilder<> B(I);
        if (isa<MemTransferInst>(MI)) B.CreateCall(fnMemcpy,{B.CreateBitCast(MI->getRawDest(),I8P), B.CreateBitCast(cast<MemTransferInst>(MI)->getRawSource(),I8P), B.CreateZExtOrTrunc(MI->getLength(), I64)});
        else B.CreateCall(fnMemset,{B.CreateBitCast(MI->getRawDest(),I8P), B.CreateZExtOrTrunc(MI->getLength(), I64)});
        return; }
      if (name=="memcpy"||name=="memmove"){ IRBuilder<> B(I); B.CreateCall(fnMemcpy,{B.CreateBitCast(CB->getArgOperand(0),I8P), B.CreateBitCast(CB->getArgOperand(1),I8P), B.CreateZExtOrTrunc(CB->getArgOperand(2), I64)}); return; }
      if (name=="_ZdlPv"||name=="free"||name=="_ZdaPv"||name=="_ZdlPvm"||name=="_ZdaPvm"){ IRBuilder<> B(I); B.CreateCall(fnFree,{B.CreateBitCast(CB->getArgOperand(0), I8P)}); return; }
      if (name=="_ZNSo5writeEPKcl"){ IRBuilder<> B(I); B.CreateCall(fnOsWrite,{B.CreateBitCast(CB->getArgOperand(0),I8P), B.CreateBitCast(CB->getArgOperand(1),I8P), CB->getArgOperand(2)}); return; }
      if (name=="_ZNSi4readEPcl"){ IRBuilder<> B(I); Value *pos=B.CreateCall(fnIsPre,{B.CreateBitCast(CB->getArgOperand(0),I8P)}); IRBuilder<> A2(after(I)); A2.CreateCall(fnIsPost,{A2.CreateBitCast(CB->getArgOperand(0),I8P), A2.CreateBitCast(CB->getArgOperand(1),I8P), CB->getArgOperand(2), pos}); return; }
      if ((name=="_ZNSo9_M_insertIdEERSoT_"||name=="_ZNSolsEd") && CB->arg_size()==2){ // ostream << double (ASCII format): the shadow travels on a side tape keyed by (streambuf, offset of the token)
        IRBuilder<> B(I); B.CreateCall(fnAscWrite,{B.CreateBitCast(CB->getArgOperand(0),I8P), S(CB->getArgOperand(1))}); return; }
      if ((name=="_ZNSi10_M_extractIdEERSiRT_"||name=="_ZNSirsERd") && CB->arg_size()==2){ // istream >> double
        IRBuilder<> B(I); Value *pos=B.CreateCall(fnAscPre,{B.CreateBitCast(CB->getArgOperand(0),I8P)}); IRBuilder<> A2(after(I)); A2.CreateCall(fnAscPost,{A2.CreateBitCast(CB->getArgOperand(0),I8P), A2.CreateBitCast(CB->getArgOperand(1),I8P), pos}); return; }
      if ((name=="__muldc3"||name=="__divdc3") && isDD(CB->getType()) && CB->arg_size()==4){
        // complex multiply / divide helpers of compiler-rt: model them over the reals
        IRBuilder<> B(after(I)); Value *a=CB->getArgOperand(0),*b=CB->getArgOperand(1),*c=CB->getArgOperand(2),*d=CB->getArgOperand(3);
        Value *sa=S(a),*sb=S(b),*sc=S(c),*sd=S(d);
        auto bin=[&](int code,Value*s1,Value*s2,Value*v1,Value*v2,Value*r)->Value*{ return B.CreateCall(fnBin,{ConstantInt::get(I32,code),s1,s2,v1,v2,r}); };
        Value *ac=B.CreateFMul(a,c),*bd=B.CreateFMul(b,d),*ad=B.CreateFMul(a,d),*bc=B.CreateFMul(b,c);
        Value *sac=bin(3,sa,sc,a,c,ac),*sbd=bin(3,sb,sd,b,d,bd),*sad=bin(3,sa,sd,a,d,ad),*sbc=bin(3,sb,sc,b,c,bc);
        Value *re,*im,*sre,*sim;
        if (name=="__muldc3"){ re=B.CreateFSub(ac,bd); sre=bin(2,sac,sbd,ac,bd,re); im=B.CreateFAdd(ad,bc); sim=bin(1,sad,sbc,ad,bc,im); }
        else { Value *cc=B.CreateFMul(c,c),*dd=B.CreateFMul(d,d); Value *scc=bin(3,sc,sc,c,c,cc),*sdd=bin(3,sd,sd,d,d,dd); Value *den=B.CreateFAdd(cc,dd); Value *sden=bin(1,scc,sdd,cc,dd,den);
          Value *n1=B.CreateFAdd(ac,bd); Value *sn1=bin(1,sac,sbd,ac,bd,n1); Value *n2=B.CreateFSub(bc,ad); Value *sn2=bin(2,sbc,sad,bc,ad,n2);
          re=B.CreateFDiv(n1,den); sre=bin(4,sn1,sden,n1,den,re); im=B.CreateFDiv(n2,den); sim=bin(4,sn2,sden,n2,den,im); }
        sh2[I]={sre,sim};
        return; }
      int mid = mathId(name);
      if (mid && isD(CB->getType())){
        IRBuilder<> B(after(I));
        if (mid<100) sh[I]=B.CreateCall(fnMath1,{ConstantInt::get(I32,mid), S(CB->getArgOperand(0)), CB->getArgOperand(0), I});
        else if (mid<200) sh[I]=B.CreateCall(fnMath2,{ConstantInt::get(I32,mid), S(CB->getArgOperand(0)), S(CB->getArgOperand(1)), CB->getArgOperand(0), CB->getArgOperand(1), I});
        else { // fmuladd a*b+c
          Value *prod = B.CreateFMul(CB->getArgOperand(0), CB->getArgOperand(1));
          Value *m = B.CreateCall(fnBin,{ConstantInt::get(I32,3), S(CB->getArgOperand(0)), S(CB->getArgOperand(1)), CB->getArgOperand(0), CB->getArgOperand(1), prod});
          sh[I]=B.CreateCall(fnBin,{ConstantInt::get(I32,1), m, S(CB->getArgOperand(2)), prod, CB->getArgOperand(2), I}); }
        return; }
      if (name.startswith("fpsym_")){ // harness API: pass shadows, results via ret registers
      } else if (callee && callee->isIntrinsic()){
        for (auto &A : CB->args()) if (isD(A->getType())){ IRBuilder<> B(I); B.CreateCall(fnEscape,{S(A), ConstantInt::get(I32,4)}); }
        return;
      } else if (callee && callee->isDeclaration() && !instrumentedElsewhere.count(name.str())){
        // un-instrumented external callee taking doubles: a symbolic argument would silently become concrete
        for (auto &A : CB->args()) if (isD(A->getType())){ if (getenv("FPSYM_VERBOSE")) errs()<<"fpsym: external callee with double argument: "<<name<<"\n"; IRBuilder<> B(I); B.CreateCall(fnEscape,{S(A), ConstantInt::get(I32,5)}); }
      }
      IRBuilder<> B(I);
      { unsigned i=0; for (auto &A : CB->args()){ if (isD(A->getType())) B.CreateCall(fnSetArg,{ConstantInt::get(I32,i), S(A)}); i++; } }
      bool retD = isD(CB->getType()), retDD = isDD(CB->getType());
      if (retD||retDD) B.CreateCall(fnClearRet,{});
      B.CreateCall(fnSetArg,{ConstantInt::get(I32,-1), Z()}); // mark valid
      if (!isa<InvokeInst>(I) || true){ Instruction *aft = after(I); if (aft){ IRBuilder<> A2(aft); A2.CreateCall(fnPost,{});
        if (retD){ sh[I]=A2.CreateCall(fnGetRet,{ConstantInt::get(I32,0)}); }
        else if (retDD){ Value *a=A2.CreateCall(fnGetRet,{ConstantInt::get(I32,0)}); Value *b=A2.CreateCall(fnGetRet,{ConstantInt::get(I32,1)}); sh2[I]={a,b}; } } }
      if (auto *II = dyn_cast<InvokeInst>(I)){ IRBuilder<> A3(&*II->getUnwindDest()->getFirstInsertionPt()); A3.CreateCall(fnPost,{}); }
      return; }
  }
};

int main(int argc,char**argv){
  SMDiagnostic E; auto M=parseIRFile(argv[1],E,Ctx); if(!M){E.print("instr",errs());return 1;} Mod=M.get();
  I64=Type::getInt64Ty(Ctx); I32=Type::getInt32Ty(Ctx); I8P=Type::getInt8PtrTy(Ctx); DblTy=Type::getDoubleTy(Ctx); VoidTy=Type::getVoidTy(Ctx); I1=Type::getInt1Ty(Ctx);
  fnEnter=M->getOrInsertFunction("__fpsym_enter", I32);
  fnPost=M->getOrInsertFunction("__fpsym_postcall", VoidTy);
  fnGetArg=M->getOrInsertFunction("__fpsym_getarg", I64, I32, I32);
  fnSetArg=M->getOrInsertFunction("__fpsym_setarg", VoidTy, I32, I64);
  fnGetRet=M->getOrInsertFunction("__fpsym_getret", I64, I32);
  fnSetRet=M->getOrInsertFunction("__fpsym_setret", VoidTy, I64, I64);
  fnClearRet=M->getOrInsertFunction("__fpsym_clearret", VoidTy);
  fnBin=M->getOrInsertFunction("__fpsym_bin", I64, I32, I64, I64, DblTy, DblTy, DblTy);
  fnNeg=M->getOrInsertFunction("__fpsym_neg", I64, I64, DblTy);
  fnCmp=M->getOrInsertFunction("__fpsym_cmp", VoidTy, I32, I64, I64, DblTy, DblTy, I32);
  fnToInt=M->getOrInsertFunction("__fpsym_toint", VoidTy, I64, DblTy, I64, I32);
  fnLoad=M->getOrInsertFunction("__fpsym_load", I64, I8P);
  fnStore=M->getOrInsertFunction("__fpsym_store", VoidTy, I8P, I64);
  fnMemcpy=M->getOrInsertFunction("__fpsym_memcpy", VoidTy, I8P, I8P, I64);
  fnMemset=M->getOrInsertFunction("__fpsym_memset", VoidTy, I8P, I64);
  fnMath1=M->getOrInsertFunction("__fpsym_math1", I64, I32, I64, DblTy, DblTy);
  fnMath2=M->getOrInsertFunction("__fpsym_math2", I64, I32, I64, I64, DblTy, DblTy, DblTy);
  fnEscape=M->getOrInsertFunction("__fpsym_escape", VoidTy, I64, I32);
  fnFree=M->getOrInsertFunction("__fpsym_free", VoidTy, I8P);
  fnOsWrite=M->getOrInsertFunction("__fpsym_oswrite", VoidTy, I8P, I8P, I64);
  fnIsPre=M->getOrInsertFunction("__fpsym_isread_pre", I64, I8P);
  fnIsPost=M->getOrInsertFunction("__fpsym_isread_post", VoidTy, I8P, I8P, I64, I64);
  fnAscWrite=M->getOrInsertFunction("__fpsym_ascwrite", VoidTy, I8P, I64);
  fnAscPre=M->getOrInsertFunction("__fpsym_ascread_pre", I64, I8P);
  fnAscPost=M->getOrInsertFunction("__fpsym_ascread_post", VoidTy, I8P, I8P, I64);
  if (argc>3){ FILE*f=fopen(argv[3],"r"); if(f){ char buf[4096]; while(fgets(buf,sizeof buf,f)){ std::string l(buf); while(!l.empty()&&(l.back()=='\n'||l.back()==' ')) l.pop_back(); if(!l.empty()) instrumentedElsewhere.insert(l);} fclose(f);} }
  int n=0;
  for (auto &F : *M){ if (F.isDeclaration()||F.getName().startswith("__fpsym_")||F.getName().startswith("asan.")||F.getName().startswith("__asan")) continue; FInstr fi(F); fi.run(); n++; }
  if (unknownFP){ errs()<<"fpsym: "<<unknownFP<<" unsupported FP instructions\n"; return 3; }
  if (verifyModule(*M,&errs())){ errs()<<"VERIFY FAILED\n"; return 2; }
  std::error_code EC; raw_fd_ostream out(argv[2],EC,sys::fs::OF_None); WriteBitcodeToFile(*M,out); outs()<<"instrumented "<<n<<" functions\n"; return 0; }
