extern "C" void harness_rule();
int main(){ harness_rule(); return 0; }
