/* native side of engine A/K: concrete replay and translator validation (same harness, real compiler) */
#include <stdio.h>
#include <stdlib.h>
#include <string.h>
#include <stdint.h>
typedef unsigned char u8;
static long vals[64]; static int nvals = -1, pos = 0; static unsigned long long lcg = 88172645463325252ULL; static long modv = 1000;
static void init(void){ if (nvals >= 0) return; nvals = 0; const char *s = getenv("K_INPUTS"); if (s){ char *e; while (*s && nvals < 64){ long v = strtol(s, &e, 10); if (e == s) break; vals[nvals++] = v; s = e; } }
  const char *sd = getenv("K_SEED"); if (sd) lcg = strtoull(sd, 0, 10) * 6364136223846793005ULL + 1442695040888963407ULL; const char *m = getenv("K_MOD"); if (m) modv = atol(m); }
int nondet_int(void){ init(); if (pos < nvals) return (int) vals[pos++]; pos++; lcg = lcg * 6364136223846793005ULL + 1442695040888963407ULL; return (int) ((lcg >> 33) % (unsigned long long) modv); }
double nondet_double(void){ init(); lcg = lcg * 6364136223846793005ULL + 1442695040888963407ULL; return -1.0 + 2.0 * (double) (lcg >> 11) / 9007199254740992.0; }
void __VERIFIER_assume(int c){ if (!c){ printf("ASSUME-FALSE\n"); exit(0); } }
void __CPROVER_assume(int c){ __VERIFIER_assume(c); }
void vp_assert(uint32_t c, uint32_t id){ printf("%u %u\n", id, c ? 1u : 0u); }
int __exc_match(u8* thrown, u8* clause){ return clause==0 || thrown==clause; }
void* vp_malloc(uint64_t n){ return malloc(n < 256 ? 256 : n); }
