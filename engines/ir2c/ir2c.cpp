// Prototype LLVM-IR -> C translator for CBMC (feasibility probe, throw-away)
#include "llvm/IR/LLVMContext.h"
#include "llvm/IR/Module.h"
#include "llvm/IR/Instructions.h"
#include "llvm/IR/IntrinsicInst.h"
#include "llvm/IR/Constants.h"
#include "llvm/IR/DataLayout.h"
#include "llvm/IR/Operator.h"
#include "llvm/IR/GetElementPtrTypeIterator.h"
#include "llvm/IRReader/IRReader.h"
#include "llvm/IR/Dominators.h"
#include "llvm/Analysis/LoopInfo.h"
#include "llvm/ADT/PostOrderIterator.h"
#include "llvm/Support/SourceMgr.h"
#include "llvm/Support/raw_ostream.h"
#include <map>
#include <functional>
#include <set>
#include <string>
#include <sstream>
#include <regex>
using namespace llvm;
static LLVMContext Ctx; static const DataLayout *DL; static Module *M;
static std::map<const Value*, std::string> gname; static std::map<const Type*, std::string> stname; static std::string structDefs;
static std::set<const Function*> reach; static std::set<const GlobalVariable*> greach; static std::vector<const Function*> order;
static std::regex stubRe; static bool haveStub=false;

static std::string san(StringRef s){ std::string r; for(char c: s){ r += (isalnum((unsigned char)c)||c=='_')? c : '_'; } return r; }
static std::string cty(Type *t);
static std::string structTy(Type *t){ auto it=stname.find(t); if(it!=stname.end()) return it->second; std::string n="agg"+std::to_string(stname.size()); stname[t]=n;
  std::string d="typedef struct { "; unsigned i=0;
  if (auto*st=dyn_cast<StructType>(t)){ for(auto*e: st->elements()) d+=cty(e)+" f"+std::to_string(i++)+"; "; }
  else if (auto*at=dyn_cast<ArrayType>(t)){ for(i=0;i<at->getNumElements();i++) d+=cty(at->getElementType())+" f"+std::to_string(i)+"; "; }
  d+="} "+n+";\n"; structDefs+=d; return n; }
static unsigned ibits(Type*t){ return cast<IntegerType>(t)->getBitWidth(); }
static std::string ity(unsigned b){ if(b<=8) return "uint8_t"; if(b<=16) return "uint16_t"; if(b<=32) return "uint32_t"; if(b<=64) return "uint64_t"; return "unsigned __int128"; }
static std::string sty(unsigned b){ if(b<=8) return "int8_t"; if(b<=16) return "int16_t"; if(b<=32) return "int32_t"; if(b<=64) return "int64_t"; return "__int128"; }
static std::string cty(Type *t){ if(t->isVoidTy()) return "void"; if(t->isIntegerTy()) return ity(ibits(t)); if(t->isDoubleTy()) return "double"; if(t->isFloatTy()) return "float"; if(t->isPointerTy()) return "u8*";
  if(t->isStructTy()||t->isArrayTy()) return structTy(t); errs()<<"unsupported type "<<*t<<"\n"; exit(3); }
static std::string mask(unsigned b, std::string e){ if(b==8||b==16||b==32||b==64||b==128) return e; uint64_t m=(b>=64)?~0ULL:((1ULL<<b)-1); return "(("+e+")&"+std::to_string(m)+"ULL)"; }
static std::string sx(unsigned b, std::string e){ // sign-extended value as signed C type of container width
  unsigned cw = b<=8?8:b<=16?16:b<=32?32:b<=64?64:128; std::string s="(("+sty(cw)+")("+e+"))"; if(cw==b) return s; unsigned sh=cw-b; return "(("+sty(cw)+")((("+ity(cw)+")("+e+"))<<"+std::to_string(sh)+")>>"+std::to_string(sh)+")"; }

struct FnEmit; static std::string cexpr(const Constant *c, FnEmit *fe);
static std::string fname(const Function *f){ auto it=gname.find(f); if(it!=gname.end()) return it->second; std::string n=san(f->getName()); if(!f->isDeclaration()||true) n="F_"+n; StringRef nm=f->getName(); if(nm.startswith("nondet_")||nm=="__VERIFIER_assume"||nm=="vp_assert"||nm.startswith("model_")) n=nm.str(); gname[f]=n; return n; }
static std::string gvname(const GlobalVariable *g){ auto it=gname.find(g); if(it!=gname.end()) return it->second; std::string n="G_"+san(g->getName())+"_"+std::to_string(gname.size()); gname[g]=n; return n; }

static std::string fproto(FunctionType *ft, std::string name){ std::string s=cty(ft->getReturnType())+" "+name+"("; unsigned i=0; for(auto*p: ft->params()){ if(i) s+=", "; s+=cty(p)+" a"+std::to_string(i++); } if(ft->isVarArg()){ if(i) s+=", "; s+="..."; } else if(!i) s+="void"; return s+")"; }
static std::string fptrty(FunctionType *ft){ std::string s=cty(ft->getReturnType())+"(*)("; unsigned i=0; for(auto*p: ft->params()){ if(i++) s+=", "; s+=cty(p);} if(ft->isVarArg()){ if(i) s+=", "; s+="..."; } else if(!i) s+="void"; return s+")"; }

static std::string fpconst(const ConstantFP *c){ char buf[64]; if(c->getType()->isDoubleTy()){ double d=c->getValueAPF().convertToDouble(); if(d!=d) return "(0.0/0.0)"; if(std::isinf(d)) return d>0?"(1.0/0.0)":"(-1.0/0.0)"; snprintf(buf,64,"%a",d); return buf; } float f=c->getValueAPF().convertToFloat(); snprintf(buf,64,"%af",(double)f); return buf; }

static std::string gepConst(const GEPOperator *g, FnEmit *fe, std::string base);
static std::string cexpr(const Constant *c, FnEmit *fe){
  if(auto*ci=dyn_cast<ConstantInt>(c)){ if(ci->getBitWidth()>64) { return "0 /*wide*/"; } return "(("+ity(ci->getBitWidth())+")"+std::to_string(ci->getZExtValue())+"ULL)"; }
  if(auto*cf=dyn_cast<ConstantFP>(c)) return fpconst(cf);
  if(isa<ConstantPointerNull>(c)) return "((u8*)0)";
  if(isa<UndefValue>(c)||isa<ConstantAggregateZero>(c)){ if(c->getType()->isStructTy()||c->getType()->isArrayTy()) return "("+cty(c->getType())+"){0}"; if(c->getType()->isPointerTy()) return "((u8*)0)"; return "0"; }
  if(auto*f=dyn_cast<Function>(c)){ return "((u8*)&"+fname(f)+")"; }
  if(auto*g=dyn_cast<GlobalVariable>(c)){ return "((u8*)"+gvname(g)+")"; }
  if(auto*ga=dyn_cast<GlobalAlias>(c)) return cexpr(ga->getAliasee(),fe);
  if(auto*ce=dyn_cast<ConstantExpr>(c)){
    switch(ce->getOpcode()){
      case Instruction::BitCast: case Instruction::AddrSpaceCast: return cexpr(ce->getOperand(0),fe);
      case Instruction::GetElementPtr: { APInt off(64,0); auto*g=cast<GEPOperator>(ce); if(g->accumulateConstantOffset(*DL,off)) return "("+cexpr(ce->getOperand(0),fe)+"+"+std::to_string(off.getSExtValue())+")"; break; }
      case Instruction::PtrToInt: return "(("+cty(ce->getType())+")(uintptr_t)"+cexpr(ce->getOperand(0),fe)+")";
      case Instruction::IntToPtr: return "((u8*)(uintptr_t)"+cexpr(ce->getOperand(0),fe)+")";
      default: break; }
    errs()<<"unsupported constexpr "<<*ce<<"\n"; exit(3); }
  if(auto*ca=dyn_cast<ConstantAggregate>(c)){ std::string s="("+cty(c->getType())+"){"; for(unsigned i=0;i<ca->getNumOperands();i++){ if(i) s+=","; s+=cexpr(ca->getOperand(i),fe);} return s+"}"; }
  if(auto*cd=dyn_cast<ConstantDataSequential>(c)){ std::string s="("+cty(c->getType())+"){"; for(unsigned i=0;i<cd->getNumElements();i++){ if(i) s+=","; s+=cexpr(cd->getElementAsConstant(i),fe);} return s+"}"; }
  errs()<<"unsupported constant "<<*c<<"\n"; exit(3); }

// write constant initializer into global memory at base+off (emits statements)
static void initConst(raw_ostream &os, std::string base, uint64_t off, const Constant *c){
  Type *t=c->getType();
  if(isa<ConstantAggregateZero>(c)||isa<UndefValue>(c)) return;
  if(auto*cd=dyn_cast<ConstantDataSequential>(c)){ uint64_t es=DL->getTypeAllocSize(cd->getElementType()); for(unsigned i=0;i<cd->getNumElements();i++) initConst(os,base,off+i*es,cd->getElementAsConstant(i)); return; }
  if(auto*ca=dyn_cast<ConstantArray>(c)){ uint64_t es=DL->getTypeAllocSize(ca->getType()->getElementType()); for(unsigned i=0;i<ca->getNumOperands();i++) initConst(os,base,off+i*es,ca->getOperand(i)); return; }
  if(auto*cs=dyn_cast<ConstantStruct>(c)){ auto*sl=DL->getStructLayout(cs->getType()); for(unsigned i=0;i<cs->getNumOperands();i++) initConst(os,base,off+sl->getElementOffset(i),cs->getOperand(i)); return; }
  os<<"  *("<<cty(t)<<"*)("<<base<<"+"<<off<<") = "<<cexpr(c,nullptr)<<";\n"; }

struct FnEmit {
  const Function &F; raw_ostream &os; std::map<const Value*,std::string> names; std::map<const BasicBlock*,std::string> bbn; unsigned nv=0;
  FnEmit(const Function &f, raw_ostream &o):F(f),os(o){}
  std::string V(const Value *v){ if(auto*c=dyn_cast<Constant>(v)) return cexpr(c,this); auto it=names.find(v); if(it!=names.end()) return it->second; std::string n="v"+std::to_string(nv++); names[v]=n; return n; }
  std::string BB(const BasicBlock*b){ auto it=bbn.find(b); if(it!=bbn.end()) return it->second; std::string n="L"+std::to_string(bbn.size()); bbn[b]=n; return n; }
  std::string zero(Type*t){ if(t->isVoidTy()) return ""; if(t->isStructTy()||t->isArrayTy()) return "("+cty(t)+"){0}"; if(t->isPointerTy()) return "(u8*)0"; return "0"; }
  void phiMoves(const BasicBlock *from, const BasicBlock *to){ // two-phase
    std::vector<std::pair<std::string,std::string>> mv; for(auto &I : *to){ auto*p=dyn_cast<PHINode>(&I); if(!p) break; mv.push_back({V(p), V(p->getIncomingValueForBlock(from))}); }
    if(mv.empty()) return; if(mv.size()==1){ os<<"    "<<mv[0].first<<" = "<<mv[0].second<<";\n"; return; }
    for(auto &m: mv) os<<"    "<<m.first<<"_t = "<<m.second<<";\n"; for(auto &m: mv) os<<"    "<<m.first<<" = "<<m.first<<"_t;\n"; }
  void jump(const BasicBlock *from, const BasicBlock *to){ os<<"  {\n"; phiMoves(from,to); os<<"    goto "<<BB(to)<<"; }\n"; }
  std::string gep(const GEPOperator *g){ std::string s="("+V(g->getPointerOperand()); int64_t coff=0;
    for(auto gti=gep_type_begin(g), e=gep_type_end(g); gti!=e; ++gti){ Value *idx=gti.getOperand();
      if(StructType *st=gti.getStructTypeOrNull()){ coff+=DL->getStructLayout(st)->getElementOffset(cast<ConstantInt>(idx)->getZExtValue()); }
      else { uint64_t es=DL->getTypeAllocSize(gti.getIndexedType()); if(auto*ci=dyn_cast<ConstantInt>(idx)) coff+=ci->getSExtValue()*(int64_t)es; else s+=" + (int64_t)"+sx(ibits(idx->getType()),V(idx))+"*(int64_t)"+std::to_string(es); } }
    if(coff) s+=" + ("+std::to_string(coff)+"LL)"; return s+")"; }
  void afterCall(const CallBase *cb){ didAfter=true; if(auto*ii=dyn_cast<InvokeInst>(cb)){ os<<"  if(__exc_pending) {\n"; phiMoves(cb->getParent(), ii->getUnwindDest()); os<<"    goto "<<BB(ii->getUnwindDest())<<"; }\n"; jump(cb->getParent(), ii->getNormalDest()); }
    else os<<"  if(__exc_pending) return "<<zero(F.getReturnType())<<";\n"; }
  bool didAfter=false;
  void emitCall(const CallBase *cb){ didAfter=false; emitCallInner(cb); if(!didAfter && isa<InvokeInst>(cb)) jump(cb->getParent(), cast<InvokeInst>(cb)->getNormalDest()); }
  void emitCallInner(const CallBase *cb){
    const Function *cf=cb->getCalledFunction(); std::string lhs = cb->getType()->isVoidTy()? "" : V(cb)+" = ";
    if(cf && cf->isIntrinsic()){ auto id=cf->getIntrinsicID(); auto A=[&](unsigned i){return V(cb->getArgOperand(i));};
      switch(id){
        case Intrinsic::lifetime_start: case Intrinsic::lifetime_end: case Intrinsic::experimental_noalias_scope_decl: case Intrinsic::dbg_value: case Intrinsic::dbg_declare: case Intrinsic::stacksave: case Intrinsic::stackrestore: case Intrinsic::prefetch: case Intrinsic::invariant_start: case Intrinsic::invariant_end:
          if(!cb->getType()->isVoidTy()) os<<"  "<<lhs<<zero(cb->getType())<<";\n"; break;
        case Intrinsic::assume: os<<"  __CPROVER_assume("<<A(0)<<");\n"; break;
        case Intrinsic::memcpy: case Intrinsic::memmove: os<<"  memmove("<<A(0)<<","<<A(1)<<","<<A(2)<<");\n"; break;
        case Intrinsic::memset: os<<"  memset("<<A(0)<<","<<A(1)<<","<<A(2)<<");\n"; break;
        case Intrinsic::smax: { unsigned b=ibits(cb->getType()); os<<"  "<<lhs<<"("<<sx(b,A(0))<<">"<<sx(b,A(1))<<")?"<<A(0)<<":"<<A(1)<<";\n"; break; }
        case Intrinsic::smin: { unsigned b=ibits(cb->getType()); os<<"  "<<lhs<<"("<<sx(b,A(0))<<"<"<<sx(b,A(1))<<")?"<<A(0)<<":"<<A(1)<<";\n"; break; }
        case Intrinsic::umax: os<<"  "<<lhs<<"("<<A(0)<<">"<<A(1)<<")?"<<A(0)<<":"<<A(1)<<";\n"; break;
        case Intrinsic::umin: os<<"  "<<lhs<<"("<<A(0)<<"<"<<A(1)<<")?"<<A(0)<<":"<<A(1)<<";\n"; break;
        case Intrinsic::abs: { unsigned b=ibits(cb->getType()); os<<"  "<<lhs<<"("<<sx(b,A(0))<<"<0)?("<<cty(cb->getType())<<")(0-"<<A(0)<<"):"<<A(0)<<";\n"; break; }
        case Intrinsic::fabs: os<<"  "<<lhs<<"__builtin_fabs("<<A(0)<<");\n"; break;
        case Intrinsic::sqrt: os<<"  "<<lhs<<"sqrt("<<A(0)<<");\n"; break;
        case Intrinsic::fmuladd: os<<"  "<<lhs<<A(0)<<"*"<<A(1)<<"+"<<A(2)<<";\n"; break;
        case Intrinsic::ctlz: { unsigned b=ibits(cb->getType()); os<<"  "<<lhs<<"("<<A(0)<<"==0)?"<<b<<":("<<cty(cb->getType())<<")(__builtin_clzll((uint64_t)"<<A(0)<<")-"<<(64-b)<<");\n"; break; }
        case Intrinsic::cttz: { unsigned b=ibits(cb->getType()); os<<"  "<<lhs<<"("<<A(0)<<"==0)?"<<b<<":("<<cty(cb->getType())<<")__builtin_ctzll((uint64_t)"<<A(0)<<");\n"; break; }
        case Intrinsic::ctpop: os<<"  "<<lhs<<"__builtin_popcountll((uint64_t)"<<A(0)<<");\n"; break;
        case Intrinsic::expect: os<<"  "<<lhs<<A(0)<<";\n"; break;
        case Intrinsic::trap: os<<"  __CPROVER_assume(0);\n"; break;
        case Intrinsic::eh_typeid_for: os<<"  "<<lhs<<"(uint32_t)(uintptr_t)"<<A(0)<<";\n"; break;
        case Intrinsic::umul_with_overflow: case Intrinsic::uadd_with_overflow: case Intrinsic::usub_with_overflow: case Intrinsic::smul_with_overflow: case Intrinsic::sadd_with_overflow: case Intrinsic::ssub_with_overflow: {
          unsigned b=ibits(cb->getArgOperand(0)->getType()); const char*bn = id==Intrinsic::umul_with_overflow||id==Intrinsic::smul_with_overflow?"mul":id==Intrinsic::uadd_with_overflow||id==Intrinsic::sadd_with_overflow?"add":"sub"; bool sg = id==Intrinsic::smul_with_overflow||id==Intrinsic::sadd_with_overflow||id==Intrinsic::ssub_with_overflow;
          std::string T = sg? sty(b):ity(b); os<<"  { "<<T<<" r_; "<<V(cb)<<".f1 = __builtin_"<<bn<<"_overflow(("<<T<<")"<<A(0)<<",("<<T<<")"<<A(1)<<",&r_); "<<V(cb)<<".f0 = ("<<ity(b)<<")r_; }\n"; break; }
        default: errs()<<"unsupported intrinsic "<<cf->getName()<<"\n"; exit(3); }
      return; }
    StringRef nm = cf? cf->getName() : "";
    if(nm=="_Znwm"||nm=="_Znam"||nm=="malloc"){ // a request of non-constant size is served from a fixed 256-byte block (asserted to be enough): CBMC's heap model does not scale with symbolic object sizes
      bool cst=isa<ConstantInt>(cb->getArgOperand(0)); os<<"  "<<lhs<<"(u8*)"<<(cst?"malloc(":"vp_malloc(")<<V(cb->getArgOperand(0))<<"); __CPROVER_assume("<<V(cb)<<"!=0);\n"; afterCall(cb); return; }
    if(nm=="_ZdlPv"||nm=="_ZdaPv"||nm=="free"||nm=="_ZdlPvm"){ os<<"  free("<<V(cb->getArgOperand(0))<<");\n"; afterCall(cb); return; }
    if(nm=="__cxa_allocate_exception"){ os<<"  "<<lhs<<"(u8*)malloc("<<V(cb->getArgOperand(0))<<"); __CPROVER_assume("<<V(cb)<<"!=0);\n"; return; }
    if(nm=="__cxa_throw"){ os<<"  __exc_obj="<<V(cb->getArgOperand(0))<<"; __exc_ti="<<V(cb->getArgOperand(1))<<"; __exc_pending=1;\n"; afterCall(cb); return; }
    if(nm=="__cxa_begin_catch"){ os<<"  "<<lhs<<V(cb->getArgOperand(0))<<"; __exc_pending=0;\n"; return; }
    if(nm=="__cxa_end_catch"||nm=="__cxa_free_exception"){ if(isa<InvokeInst>(cb)) afterCall(cb); return; }
    if(nm=="__cxa_atexit"){ if(!cb->getType()->isVoidTy()) os<<"  "<<lhs<<"0;\n"; return; }
    if(nm.startswith("_ZSt") && nm.contains("__throw_")){ os<<"  __exc_obj=(u8*)0; __exc_ti=(u8*)\""<<nm.str()<<"\"; __exc_pending=1;\n"; afterCall(cb); return; }
    if(nm=="__VERIFIER_assume"){ os<<"  __CPROVER_assume("<<V(cb->getArgOperand(0))<<");\n"; return; }
    std::string callee; FunctionType *ft=cb->getFunctionType();
    if(cf) callee=fname(cf); else callee="(("+fptrty(ft)+")"+V(cb->getCalledOperand())+")";
    os<<"  "<<lhs<<callee<<"("; for(unsigned i=0;i<cb->arg_size();i++){ if(i) os<<", "; os<<V(cb->getArgOperand(i)); } os<<");\n"; afterCall(cb); }
  void inst(const Instruction &I){
    if(isa<PHINode>(I)) return;
    unsigned op=I.getOpcode(); auto O=[&](unsigned i){return V(I.getOperand(i));};
    if(auto*bo=dyn_cast<BinaryOperator>(&I)){ Type*t=I.getType(); if(t->isFloatingPointTy()){ const char*o= op==Instruction::FAdd?"+":op==Instruction::FSub?"-":op==Instruction::FMul?"*":op==Instruction::FDiv?"/":nullptr; if(!o){ os<<"  "<<V(&I)<<" = fmod("<<O(0)<<","<<O(1)<<");\n"; return;} os<<"  "<<V(&I)<<" = "<<O(0)<<o<<O(1)<<";\n"; return; }
      unsigned b=ibits(t); std::string T=ity(b), e;
      switch(op){ case Instruction::Add: e=O(0)+"+"+O(1); break; case Instruction::Sub: e=O(0)+"-"+O(1); break; case Instruction::Mul: e=O(0)+"*"+O(1); break;
        case Instruction::UDiv: e=O(0)+"/"+O(1); break; case Instruction::URem: e=O(0)+"%"+O(1); break;
        case Instruction::SDiv: e="("+T+")("+sx(b,O(0))+"/"+sx(b,O(1))+")"; break; case Instruction::SRem: e="("+T+")("+sx(b,O(0))+"%"+sx(b,O(1))+")"; break;
        case Instruction::Shl: e=O(0)+"<<"+O(1); break; case Instruction::LShr: e=O(0)+">>"+O(1); break; case Instruction::AShr: e="("+T+")("+sx(b,O(0))+">>"+O(1)+")"; break;
        case Instruction::And: e=O(0)+"&"+O(1); break; case Instruction::Or: e=O(0)+"|"+O(1); break; case Instruction::Xor: e=O(0)+"^"+O(1); break; default: errs()<<"binop?\n"; exit(3);}
      os<<"  "<<V(&I)<<" = "<<mask(b,"("+T+")("+e+")")<<";\n"; (void)bo; return; }
    switch(op){
      case Instruction::FNeg: os<<"  "<<V(&I)<<" = -"<<O(0)<<";\n"; return;
      case Instruction::Alloca: { auto*a=cast<AllocaInst>(&I); uint64_t sz=DL->getTypeAllocSize(a->getAllocatedType()); if(auto*ci=dyn_cast<ConstantInt>(a->getArraySize())){ sz*=ci->getZExtValue(); os<<"  "<<V(&I)<<" = (u8*)"<<V(&I)<<"_mem;\n"; allocas.push_back({V(&I),sz}); } else os<<"  "<<V(&I)<<" = (u8*)malloc("<<sz<<"*"<<V(a->getArraySize())<<");\n"; return; }
      case Instruction::Load: { os<<"  "<<V(&I)<<" = *("<<cty(I.getType())<<"*)"<<O(0)<<";\n"; return; }
      case Instruction::Store: { os<<"  *("<<cty(I.getOperand(0)->getType())<<"*)"<<O(1)<<" = "<<O(0)<<";\n"; return; }
      case Instruction::GetElementPtr: os<<"  "<<V(&I)<<" = "<<gep(cast<GEPOperator>(&I))<<";\n"; return;
      case Instruction::BitCast: { Type*s=I.getOperand(0)->getType(), *d=I.getType(); if(s->isPointerTy()&&d->isPointerTy()) os<<"  "<<V(&I)<<" = "<<O(0)<<";\n"; else os<<"  { "<<cty(s)<<" s_="<<O(0)<<"; memcpy(&"<<V(&I)<<",&s_,sizeof(s_)); }\n"; return; }
      case Instruction::PtrToInt: os<<"  "<<V(&I)<<" = ("<<cty(I.getType())<<")(uintptr_t)"<<O(0)<<";\n"; return;
      case Instruction::IntToPtr: os<<"  "<<V(&I)<<" = (u8*)(uintptr_t)"<<O(0)<<";\n"; return;
      case Instruction::ZExt: os<<"  "<<V(&I)<<" = ("<<cty(I.getType())<<")"<<O(0)<<";\n"; return;
      case Instruction::Trunc: os<<"  "<<V(&I)<<" = "<<mask(ibits(I.getType()),"("+cty(I.getType())+")"+O(0))<<";\n"; return;
      case Instruction::SExt: os<<"  "<<V(&I)<<" = "<<mask(ibits(I.getType()),"("+cty(I.getType())+")("+sty(ibits(I.getType()))+")"+sx(ibits(I.getOperand(0)->getType()),O(0)))<<";\n"; return;
      case Instruction::SIToFP: os<<"  "<<V(&I)<<" = ("<<cty(I.getType())<<")"<<sx(ibits(I.getOperand(0)->getType()),O(0))<<";\n"; return;
      case Instruction::UIToFP: os<<"  "<<V(&I)<<" = ("<<cty(I.getType())<<")"<<O(0)<<";\n"; return;
      case Instruction::FPToSI: os<<"  "<<V(&I)<<" = "<<mask(ibits(I.getType()),"("+cty(I.getType())+")("+sty(ibits(I.getType()))+")"+O(0))<<";\n"; return;
      case Instruction::FPToUI: os<<"  "<<V(&I)<<" = ("<<cty(I.getType())<<")"<<O(0)<<";\n"; return;
      case Instruction::FPExt: case Instruction::FPTrunc: os<<"  "<<V(&I)<<" = ("<<cty(I.getType())<<")"<<O(0)<<";\n"; return;
      case Instruction::ICmp: { auto*c=cast<ICmpInst>(&I); Type*t=I.getOperand(0)->getType(); std::string a=O(0), b=O(1); const char*o;
          if(t->isPointerTy()){ a="(uintptr_t)"+a; b="(uintptr_t)"+b; } else if(c->isSigned()){ unsigned w=ibits(t); a=sx(w,a); b=sx(w,b);}
          switch(c->getPredicate()){ case CmpInst::ICMP_EQ:o="==";break; case CmpInst::ICMP_NE:o="!=";break; case CmpInst::ICMP_UGT: case CmpInst::ICMP_SGT:o=">";break; case CmpInst::ICMP_UGE: case CmpInst::ICMP_SGE:o=">=";break; case CmpInst::ICMP_ULT: case CmpInst::ICMP_SLT:o="<";break; default:o="<=";break; }
          os<<"  "<<V(&I)<<" = ("<<a<<o<<b<<");\n"; return; }
      case Instruction::FCmp: { auto*c=cast<FCmpInst>(&I); std::string a=O(0), b=O(1), e; auto ord="(("+a+"=="+a+")&&("+b+"=="+b+"))"; auto uno="(!"+ord+")";
          switch(c->getPredicate()){ case CmpInst::FCMP_OEQ:e=a+"=="+b;break; case CmpInst::FCMP_OGT:e=a+">"+b;break; case CmpInst::FCMP_OGE:e=a+">="+b;break; case CmpInst::FCMP_OLT:e=a+"<"+b;break; case CmpInst::FCMP_OLE:e=a+"<="+b;break; case CmpInst::FCMP_ONE:e=ord+"&&("+a+"!="+b+")";break; case CmpInst::FCMP_ORD:e=ord;break; case CmpInst::FCMP_UNO:e=uno;break;
            case CmpInst::FCMP_UEQ:e=uno+"||("+a+"=="+b+")";break; case CmpInst::FCMP_UGT:e="!("+a+"<="+b+")";break; case CmpInst::FCMP_UGE:e="!("+a+"<"+b+")";break; case CmpInst::FCMP_ULT:e="!("+a+">="+b+")";break; case CmpInst::FCMP_ULE:e="!("+a+">"+b+")";break; case CmpInst::FCMP_UNE:e=a+"!="+b;break; case CmpInst::FCMP_TRUE:e="1";break; default:e="0";break; }
          os<<"  "<<V(&I)<<" = ("<<e<<");\n"; return; }
      case Instruction::Select: os<<"  "<<V(&I)<<" = "<<O(0)<<" ? "<<O(1)<<" : "<<O(2)<<";\n"; return;
      case Instruction::ExtractValue: { auto*ev=cast<ExtractValueInst>(&I); os<<"  "<<V(&I)<<" = "<<O(0); for(unsigned i: ev->indices()) os<<".f"<<i; os<<";\n"; return; }
      case Instruction::InsertValue: { auto*iv=cast<InsertValueInst>(&I); os<<"  "<<V(&I)<<" = "<<O(0)<<"; "<<V(&I); for(unsigned i: iv->indices()) os<<".f"<<i; os<<" = "<<O(1)<<";\n"; return; }
      case Instruction::Call: emitCall(cast<CallBase>(&I)); return;
      case Instruction::Invoke: emitCall(cast<CallBase>(&I)); return;
      case Instruction::LandingPad: { auto*lp=cast<LandingPadInst>(&I); os<<"  "<<V(&I)<<".f0 = __exc_obj; "<<V(&I)<<".f1 = 0; __exc_pending=0;\n";
          for(unsigned i=0;i<lp->getNumClauses();i++) if(lp->isCatch(i)){ os<<"  if("<<V(&I)<<".f1==0 && __exc_match(__exc_ti,"<<V(lp->getClause(i))<<")) "<<V(&I)<<".f1=(uint32_t)(uintptr_t)"<<V(lp->getClause(i))<<";\n"; } return; }
      case Instruction::Resume: os<<"  __exc_pending=1; return "<<zero(F.getReturnType())<<";\n"; return;
      case Instruction::Br: { auto*b=cast<BranchInst>(&I); if(b->isUnconditional()){ jump(I.getParent(), b->getSuccessor(0)); } else { os<<"  if("<<O(0)<<")\n"; jump(I.getParent(), b->getSuccessor(0)); os<<"  else\n"; jump(I.getParent(), b->getSuccessor(1)); } return; }
      case Instruction::Switch: { auto*s=cast<SwitchInst>(&I); for(auto &c: s->cases()){ os<<"  if("<<O(0)<<"=="<<V(c.getCaseValue())<<")\n"; jump(I.getParent(), c.getCaseSuccessor()); } jump(I.getParent(), s->getDefaultDest()); return; }
      case Instruction::Ret: if(I.getNumOperands()) os<<"  return "<<O(0)<<";\n"; else os<<"  return;\n"; return;
      case Instruction::Unreachable: os<<"  __CPROVER_assume(0);\n"; if(!F.getReturnType()->isVoidTy()) os<<"  return "<<zero(F.getReturnType())<<";\n"; else os<<"  return;\n"; return;
      case Instruction::Fence: return;
      case Instruction::Freeze: os<<"  "<<V(&I)<<" = "<<O(0)<<";\n"; return;
      default: errs()<<"unsupported instruction "<<I<<"\n"; exit(3); }
  }
  std::vector<std::pair<std::string,uint64_t>> allocas;
  void run(){ std::string body; raw_string_ostream bs(body); raw_ostream *save=&os; (void)save;
    // name args
    unsigned i=0; for(auto &A: F.args()) names[&A]="a"+std::to_string(i++);
    FnEmit inner(F, bs); inner.names=names;
    // block order: reverse post-order with every natural loop contiguous and its header first, so that each backward goto of the generated C is
    // exactly one loop back-edge and nested loops are textually nested (CBMC counts unwindings per backward goto)
    { DominatorTree DT(const_cast<Function&>(F)); LoopInfo LI(DT);
      std::vector<const BasicBlock*> rpo; { ReversePostOrderTraversal<const Function*> R(&F); for(auto*b: R) rpo.push_back(b); }
      std::set<const BasicBlock*> done; std::vector<const BasicBlock*> out;
      std::function<void(const Loop*)> emitLoop = [&](const Loop *L){
        for(auto*b: rpo){ if(done.count(b)) continue; if(L && !L->contains(b)) continue;
          const Loop *bl = LI.getLoopFor(b); const Loop *child = bl; while(child && child->getParentLoop()!=L) child = child->getParentLoop();
          if(bl!=L && child){ emitLoop(child); continue; }
          done.insert(b); out.push_back(b); } };
      if(getenv("IR2C_ORDER") && std::string(getenv("IR2C_ORDER"))=="llvm"){ for(auto &B: F) out.push_back(&B); }   // LLVM's own block order (harnesses without heap code were validated with it and solve faster)
      else emitLoop(nullptr);
      for(auto*b: out){ bs<<inner.BB(b)<<": ;\n"; for(auto &I: *b) inner.inst(I); } }
    bs.flush();
    os<<"static "<<fproto(F.getFunctionType(), fname(&F))<<" {\n";
    for(auto &kv: inner.names){ if(isa<Argument>(kv.first)) continue; Type*t=kv.first->getType(); if(t->isVoidTy()) continue; os<<"  "<<cty(t)<<" "<<kv.second<<"; "; if(isa<PHINode>(kv.first)) os<<cty(t)<<" "<<kv.second<<"_t; "; os<<"\n"; }
    for(auto &a: inner.allocas) os<<"  u8 "<<a.first<<"_mem["<<(a.second?a.second:1)<<"] __attribute__((aligned(16)));\n";
    os<<body<<"}\n\n"; }
};

static void collect(const Function *f);
static void scanConst(const Constant *c){ if(auto*f=dyn_cast<Function>(c)){ collect(f); return;} if(auto*g=dyn_cast<GlobalVariable>(c)){ if(greach.insert(g).second && g->hasInitializer()) scanConst(g->getInitializer()); return;} if(auto*ga=dyn_cast<GlobalAlias>(c)){ scanConst(ga->getAliasee()); return;} for(auto &o: c->operands()) if(auto*oc=dyn_cast<Constant>(o)) scanConst(oc); }
static bool isStub(const Function*f){ return f->isDeclaration() || (haveStub && std::regex_search(f->getName().str(), stubRe)); }
static void collect(const Function *f){ if(!reach.insert(f).second) return; if(isStub(f)||f->isIntrinsic()) { order.push_back(f); return; } for(auto &B:*f) for(auto &I:B) for(auto &o: I.operands()) if(auto*c=dyn_cast<Constant>(o)) scanConst(c); order.push_back(f); }

int main(int argc,char**argv){ SMDiagnostic E; auto Mod=parseIRFile(argv[1],E,Ctx); if(!Mod){E.print("ir2c",errs());return 1;} M=Mod.get(); DL=&M->getDataLayout();
  std::string entry=argv[2]; if(argc>3){ stubRe=std::regex(argv[3]); haveStub=true; }
  Function *ef=M->getFunction(entry); if(!ef){ errs()<<"no entry\n"; return 1; } collect(ef);
  std::string fns; raw_string_ostream fs(fns);
  for(auto*f: order){ if(isStub(f)||f->isIntrinsic()) continue; FnEmit fe(*f, fs); fe.run(); }
  fs.flush();
  raw_ostream &o=outs();
  o<<"#include <stdint.h>\n#include <string.h>\n#include <stdlib.h>\n#include <math.h>\ntypedef unsigned char u8;\nstatic u8* __exc_obj; static u8* __exc_ti; static int __exc_pending;\nint __exc_match(u8* thrown, u8* clause);\nvoid vp_assert(uint32_t c, uint32_t id);\nvoid* vp_malloc(uint64_t n);\n";
  o<<structDefs;
  for(auto*g: greach){ uint64_t sz=DL->getTypeAllocSize(g->getValueType()); o<<"static u8 "<<gvname(g)<<"["<<(sz?sz:1)<<"] __attribute__((aligned(16)));\n"; }
  for(auto*f: order){ if(f->isIntrinsic()) continue; StringRef nm=f->getName(); if(nm=="_Znwm"||nm=="_ZdlPv"||nm=="__VERIFIER_assume"||nm=="vp_assert"||(nm.startswith("__cxa_")&&nm!="__cxa_pure_virtual")||nm=="_Znam"||nm=="_ZdaPv"||nm=="malloc"||nm=="free"||(nm.startswith("_ZSt")&&nm.contains("__throw_"))) continue; o<<(isStub(f)?"":"static ")<<fproto(f->getFunctionType(), fname(f))<<";\n"; }
  o<<fns;
  o<<"void __ir2c_init(void){\n"; for(auto*g: greach) if(g->hasInitializer()) initConst(o, gvname(g), 0, g->getInitializer()); o<<"}\n";
  o<<"int main(void){ __ir2c_init(); "<<fname(ef)<<"(); return 0; }\n";
  errs()<<"functions: "<<order.size()<<" globals: "<<greach.size()<<"\n"; return 0; }
