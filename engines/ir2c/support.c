/* models shared by all engine-A/K harnesses (compiled by CBMC together with the generated C) */
#include <stdint.h>
#include <stdlib.h>
typedef unsigned char u8;
int __exc_match(u8* thrown, u8* clause){ return clause==0 || thrown==clause; }
int nondet_int(void); double nondet_double(void);
void __VERIFIER_assume(int c){ __CPROVER_assume(c); }
#define A(n) if(id==n){ __CPROVER_assert(c, "K" #n); return; }
void vp_assert(uint32_t c, uint32_t id){
  A(11) A(12) A(21) A(22) A(23) A(24) A(25) A(26) A(31) A(41) A(51) A(52) A(53) A(61) A(62) A(63) A(64) A(65) A(66) A(71) A(72) A(73) A(74) A(81) A(82) A(83) A(84) A(85) A(86) A(87) A(88) A(89) A(99)
  __CPROVER_assert(c, "K-unlisted");
}
void* vp_malloc(uint64_t n){ __CPROVER_assert(n<=256, "K-alloc: a heap request of non-constant size fits the 256-byte block of the model"); void *p = malloc(256); __CPROVER_assume(p != 0); return p; }
