// C04: all documented routes to the same quantity agree.
// args: <grid spec> <history> <xmode>
//  history: 8 (local polynomial) the full point set minus ONE interior point whose parent and children stay: direct parent missing, farther ancestor present, delivered in one batch
//  history: 0 fresh loaded | 1 loaded + pending refinement | 2 merged refinement + coefficient overwrite | 3 partially finished construction | 4 coefficient overwrite
//  xmode: 0 batch of concrete points (nodes, interior, boundary, support edges) | 1 one symbolic point x in the domain
//         2 a batch of <size> concrete pseudo-random points (4th argument; batch sizes around the block size 32 of the sparse assembly)
#include "tgrid.hpp"

static double domLo(const GridSpec &g, int j){ if (g.transform) return g.ta[j]; return g.family == "fourier" ? 0.0 : -1.0; }
static double domHi(const GridSpec &g, int j){ if (g.transform) return g.tb[j]; return 1.0; }

int main(int argc, char **argv){
  GridSpec g = parseSpec(argv[1]); int history = atoi(argv[2]), xmode = atoi(argv[3]);
  TasmanianSparseGrid grid; makeGrid(grid, g);
  int d = g.dims, outs = g.outputs;
  SymModel model(outs, 1000, -1.0, 1.0, g.family != "wavelet");   // wavelet coefficients come from GMRES: values stay concrete there
  // ---- history
  if (history == 7){
    // a point set that is closed under REGULAR parents but misses a STEP-parent (rules with two parents per direction), delivered in one batch
    if (!grid.isLocalPolynomial()){ fpsym_finish(); return 0; }
    RuleLocal::erule r = RuleLocal::getEffectiveRule(grid.getOrder(), grid.getRule());
    const int *idx = grid.getPointsIndexes(); int np = grid.getNumPoints();
    std::vector<std::vector<int>> P(np); for (int i=0;i<np;i++) P[i] = std::vector<int>(idx + (size_t) i * d, idx + (size_t) (i + 1) * d);
    auto level = [&](const std::vector<int> &p){ int l = 0; for (int j=0;j<d;j++) l += lpLevel(r, p[j]); return l; };
    // is a a regular ancestor-or-self of q (coordinate-wise regular-parent chains)?
    auto regAnc = [&](const std::vector<int> &a, const std::vector<int> &q){ for (int j=0;j<d;j++){ int c = q[j]; bool hit = false; while (c >= 0){ if (c == a[j]){ hit = true; break; } c = lpParent(r, c, false); } if (!hit) return false; } return true; };
    int victim = -1, orphan = -1;
    for (int i=np-1;i>=0 && victim < 0;i--){ if (level(P[i]) < 2) continue;
      for (int q=0;q<np && victim < 0;q++) for (int j=0;j<d;j++){ int sp = lpParent(r, P[q][j], true); if (sp < 0) continue; std::vector<int> t = P[q]; t[j] = sp; if (t == P[i] && !regAnc(P[i], P[q])){ victim = i; orphan = q; break; } } }
    fpsym_note("victim_point", victim); fpsym_note("orphan_point", orphan);
    if (victim < 0){ fpsym_finish(); return 0; }     // the rule has no step-parents (or the grid is too shallow): nothing to test
    std::vector<double> all = grid.getPoints(), sub;
    for (int i=0;i<np;i++) if (!regAnc(P[victim], P[i])) sub.insert(sub.end(), all.begin() + (size_t) i * d, all.begin() + (size_t) (i + 1) * d);
    GridSpec g0 = g; g0.depth = 0; makeGrid(grid, g0);
    grid.beginConstruction();
    grid.loadConstructedPoints(sub, model.values(sub, d));
    fpsym_note("subset_points", (long) sub.size() / d);
  } else if (history == 8){
    if (!grid.isLocalPolynomial()){ fpsym_finish(); return 0; }
    RuleLocal::erule r = RuleLocal::getEffectiveRule(grid.getOrder(), grid.getRule());
    const int *idx = grid.getPointsIndexes(); int np = grid.getNumPoints();
    // victim: a point of 1-D level >= 1 in direction 0 (level 0 elsewhere is not required) that has a kid in direction 0 inside the set
    int victim = -1;
    for (int i=0;i<np && victim < 0;i++){ int p0 = idx[(size_t) i * d]; if (lpLevel(r, p0) < 1) continue;
      for (int q=0;q<np;q++){ bool same = true; for (int j=1;j<d;j++) if (idx[(size_t) q * d + j] != idx[(size_t) i * d + j]) same = false; if (same && lpParent(r, idx[(size_t) q * d], false) == p0){ victim = i; break; } } }
    fpsym_note("victim_point", victim);
    if (victim < 0){ fpsym_finish(); return 0; }
    std::vector<double> all = grid.getPoints(), sub;
    for (int i=0;i<np;i++) if (i != victim) sub.insert(sub.end(), all.begin() + (size_t) i * d, all.begin() + (size_t) (i + 1) * d);
    GridSpec g0 = g; g0.depth = 0; makeGrid(grid, g0);
    grid.beginConstruction();
    grid.loadConstructedPoints(sub, model.values(sub, d));
    fpsym_note("subset_points", (long) sub.size() / d);
  } else if (history == 3){
    grid.beginConstruction();
    for (int round = 0; round < 2; round++){
      std::vector<double> cand = (grid.isLocalPolynomial() || grid.isWavelet()) ? grid.getCandidateConstructionPoints(0.0, refine_fds, -1, g.ll) : grid.getCandidateConstructionPoints(type_iptotal, 0, g.ll);
      int nc = (int) cand.size() / d; int take = round == 0 ? nc : std::min(nc, 2);
      if (take == 0) break;
      std::vector<double> x(cand.begin(), cand.begin() + (size_t) take * d);
      grid.loadConstructedPoints(x, model.values(x, d));
    }
  } else {
    grid.loadNeededValues(model.values(grid.getNeededPoints(), d));
  }
  if (history == 1 || history == 2){
    if (grid.isLocalPolynomial() || grid.isWavelet()) grid.setSurplusRefinement(0.0, refine_classic, -1, g.ll);
    else grid.setAnisotropicRefinement(type_iptotal, 3, 0, g.ll);
    fpsym_note("needed_pending", grid.getNumNeeded());
    if (history == 2) grid.mergeRefinement();
  }
  int n = grid.getNumLoaded();
  fpsym_note("loaded", n);
  if (n == 0){ fpsym_finish(); return 0; }
  int nc = (grid.isFourier() ? 2 : 1) * n * outs;
  std::vector<double> loaded_pts = grid.getLoadedPoints();
  if (history == 2 || history == 4){
    std::vector<double> h(nc); for (int i=0;i<nc;i++) h[i] = fpsym_symbolic(0.3 - 0.07 * (i % 9), 6000 + i, -1.0, 1.0);
    grid.setHierarchicalCoefficients(h);
    const double *c = grid.getHierarchicalCoefficients();
    for (int i=0;i<nc;i++) fpsym_ident(c[i], h[i], "getHierarchicalCoefficients() returns what setHierarchicalCoefficients() stored");
    if (!grid.isGlobal()){
      const double *v = grid.getLoadedValues();
      for (int i=0;i<n;i++){ std::vector<double> y; grid.evaluate(pointAt(loaded_pts, d, i), y); for (int k=0;k<outs;k++) fpsym_eq(v[(size_t) i * outs + k], y[k], 1.0 + nc, "after setHierarchicalCoefficients the stored values equal the surrogate at the nodes"); }
    }
  }
  const double *coeff = grid.getHierarchicalCoefficients();
  const double *vals = grid.getLoadedValues();
  double scale = 2.0 + nc;
  // ---- integrals (no x involved)
  {
    std::vector<double> q; grid.integrate(q);
    std::vector<double> w = grid.getQuadratureWeights(); std::vector<double> ih = grid.integrateHierarchicalFunctions();
    double wabs = scale; for (auto v : w) wabs += std::fabs(v);
    for (int k=0;k<outs;k++){
      double s1 = 0; for (int i=0;i<n;i++) s1 += w[i] * vals[(size_t) i * outs + k];
      fpsym_eq(q[k], s1, wabs, "integrate() == quadrature weights times values");
      if (!grid.isGlobal()){
        double s2 = 0;
        if (grid.isFourier()){ for (int i=0;i<n;i++) s2 += coeff[(size_t) i * outs + k] * ih[i]; }   // integrals of the Fourier basis are real
        else for (int i=0;i<n;i++) s2 += coeff[(size_t) i * outs + k] * ih[i];
        fpsym_eq(q[k], s2, wabs, "integrate() == coefficients times integrateHierarchicalFunctions()");
      }
    }
  }
  // ---- points
  std::vector<double> xs;
  if (xmode == 1){
    for (int j=0;j<d;j++) xs.push_back(fpsym_symbolic(domLo(g, j) + (0.37 + 0.11 * j) * (domHi(g, j) - domLo(g, j)), 1 + j, domLo(g, j), domHi(g, j)));
  } else if (xmode == 2){
    int bs = argc > 4 ? atoi(argv[4]) : 32; unsigned long long lcg = 88172645463325252ULL;
    for (int i=0;i<bs;i++) for (int j=0;j<d;j++){ lcg = lcg * 6364136223846793005ULL + 1442695040888963407ULL; double u = (double) (lcg >> 11) / 9007199254740992.0; xs.push_back(domLo(g, j) + u * (domHi(g, j) - domLo(g, j))); }
  } else {
    for (int i=0;i<std::min(n, 2);i++) for (int j=0;j<d;j++) xs.push_back(loaded_pts[(size_t) i * d + j]);                        // nodes
    for (int j=0;j<d;j++) xs.push_back(domLo(g, j) + (0.37 + 0.11 * j) * (domHi(g, j) - domLo(g, j)));                              // interior
    for (int j=0;j<d;j++) xs.push_back(j % 2 ? domLo(g, j) : domHi(g, j));                                                          // corner of the domain
    for (int j=0;j<d;j++) xs.push_back(0.5 * (domLo(g, j) + domHi(g, j)));                                                         // centre of the domain (Fourier: half a period from node 0)
    if (grid.isFourier()){ for (double f : {1.0 / 6.0, 5.0 / 6.0, 11.0 / 18.0}) for (int j=0;j<d;j++) xs.push_back(domLo(g, j) + (j == 0 ? f : 0.5) * (domHi(g, j) - domLo(g, j))); }   // half a period from the nodes 2/3, 1/3, 1/9
    if (grid.isLocalPolynomial() || grid.isWavelet()){
      std::vector<double> sup = grid.getHierarchicalSupport(); int pick = n - 1;
      for (int sgn = -1; sgn <= 1; sgn += 2){ // support edge of the last basis function in direction 0, and a point just outside
        for (double f : {1.0, 1.0 + 1e-9}){ std::vector<double> p = pointAt(loaded_pts, d, pick); p[0] += sgn * f * sup[(size_t) pick * d]; if (p[0] < domLo(g, 0) || p[0] > domHi(g, 0)) continue; xs.insert(xs.end(), p.begin(), p.end()); }
      }
    }
  }
  int nx = (int) xs.size() / d;
  std::vector<double> yb; grid.evaluateBatch(xs, yb);
  std::vector<double> hb; grid.evaluateHierarchicalFunctions(xs, hb);
  int stride = (grid.isFourier() ? 2 : 1) * n;
  std::vector<int> pntr, indx; std::vector<double> svals;
  bool sparse_ok = grid.isLocalPolynomial() || grid.isWavelet();
  if (sparse_ok) grid.evaluateSparseHierarchicalFunctions(xs, pntr, indx, svals);
  std::vector<double> sup; if (grid.isLocalPolynomial() || grid.isWavelet()) sup = grid.getHierarchicalSupport();
  for (int p=0;p<nx;p++){
    std::vector<double> x(xs.begin() + (size_t) p * d, xs.begin() + (size_t) (p + 1) * d), y;
    grid.evaluate(x, y);
    bool wavelet_symx = grid.isWavelet() && xmode == 1;   // transposed GMRES solve with a symbolic right-hand side: outside the claim
    std::vector<double> iw = wavelet_symx ? std::vector<double>(n, 0.0) : grid.getInterpolationWeights(x);
    double wabs = scale; if (xmode == 0) for (auto v : iw) wabs += std::fabs(v);
    for (int k=0;k<outs;k++){
      fpsym_eq(y[k], yb[(size_t) p * outs + k], scale, "evaluate(x) == row of evaluateBatch()");
      double s1 = 0; for (int i=0;i<n;i++) s1 += iw[i] * vals[(size_t) i * outs + k];
      if (!wavelet_symx) fpsym_eq(y[k], s1, wabs, "evaluate(x) == interpolation weights times values");
      double s2 = 0;
      if (grid.isFourier()){ for (int i=0;i<n;i++) s2 += coeff[(size_t) i * outs + k] * hb[(size_t) p * stride + 2 * i] - coeff[(size_t) (n + i) * outs + k] * hb[(size_t) p * stride + 2 * i + 1]; }
      else for (int i=0;i<n;i++) s2 += coeff[(size_t) i * outs + k] * hb[(size_t) p * stride + i];
      fpsym_eq(y[k], s2, wabs, "evaluate(x) == hierarchical coefficients times evaluateHierarchicalFunctions(x)");
    }
    if (sparse_ok){
      std::vector<char> present(n, 0);
      for (int e = pntr[p]; e < pntr[p + 1]; e++){ int i = indx[e]; fpsym_check(i >= 0 && i < n && !present[i], "sparse hierarchical matrix: column index in range and not repeated"); if (i < 0 || i >= n) continue; present[i] = 1;
        fpsym_eq(svals[e], hb[(size_t) p * stride + i], 1.0, "sparse hierarchical matrix entry == dense entry"); }
      for (int i=0;i<n;i++) if (!present[i]) fpsym_eq(hb[(size_t) p * stride + i], 0.0, 1.0, "entry omitted by the sparse hierarchical matrix is exactly zero in the dense one");
    }
    if (!sup.empty() && xmode == 0){
      for (int i=0;i<n;i++){ bool outside = false; for (int j=0;j<d;j++) if (std::fabs(x[j] - loaded_pts[(size_t) i * d + j]) > sup[(size_t) i * d + j]) outside = true;
        if (outside) fpsym_check(hb[(size_t) p * stride + i] == 0.0, "basis function is zero farther from its node than getHierarchicalSupport()"); }
    }
    // derivative routes (interior points only; at cell boundaries the derivative is one-sided)
    bool interior = true; if (xmode == 0) interior = (p == std::min(n, 2));
    if (interior && !wavelet_symx){
      std::vector<double> jac; grid.differentiate(x, jac);
      std::vector<double> dw = grid.getDifferentiationWeights(x);
      double dabs = scale; if (xmode == 0) for (auto v : dw) dabs += std::fabs(v);
      for (int k=0;k<outs;k++) for (int j=0;j<d;j++){
        double s = 0; for (int i=0;i<n;i++) s += dw[(size_t) i * d + j] * vals[(size_t) i * outs + k];
        fpsym_eq(jac[(size_t) k * d + j], s, dabs, "differentiate(x) == differentiation weights times values");
      }
    }
  }
  bool any_symbol = model.symbolic || history == 2 || history == 4 || xmode == 1;   // wavelet grids with plain loaded values are a concrete sanity run
  if (any_symbol) fpsym_nonconst(yb[0], "witness: surrogate value depends on the symbols");
  fpsym_finish(); return 0;
}
