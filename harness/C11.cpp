// C11: copies are complete, equal to the source and independent of it.
// args: <grid spec> <history> <how> <begin> <end> <mutate>
//   history: 0 loaded | 1 loaded + pending refinement | 2 active construction (some samples loaded, some parked) | 3 solver-chosen (three steps, see solverChosenHistory in tgrid.hpp)
//   how: 0 copy constructor | 1 assignment | 2 copyGrid(src) | 3 copyGrid(src, begin, end)
//   mutate: 0 mutate the source afterwards | 1 mutate the copy afterwards
#include "tgrid.hpp"
#include <sstream>

static void compare(const Obs &copy, const Obs &src, int b, int e, const char *stage){
  std::string s(stage);
  fpsym_check(copy.ints == src.ints, (s + ": structure, point counts, rule, limits, construction flag are equal").c_str());
  fpsym_check(copy.coords == src.coords, (s + ": points (in order), transform and weights are equal").c_str());
  fpsym_check(copy.outs == e - b && copy.strips == src.strips, (s + ": number of outputs and of output-dependent entries match the requested range").c_str());
  if (copy.outs != e - b || copy.strips != src.strips) return;
  for (int t=0;t<copy.strips;t++) for (int k=b;k<e;k++)
    fpsym_ident(copy.outdep[(size_t) t * copy.outs + (k - b)], src.outdep[(size_t) t * src.outs + k], (s + ": output-dependent quantity is the restriction of the source to the range").c_str());
}
static void unchanged(const Obs &now, const Obs &before, const char *stage){
  std::string s(stage);
  fpsym_check(now.ints == before.ints && now.coords == before.coords && now.outdep.size() == before.outdep.size(), (s + ": structure unchanged by a mutation of the other grid").c_str());
  if (now.outdep.size() == before.outdep.size()) for (size_t i=0;i<now.outdep.size();i++) fpsym_ident(now.outdep[i], before.outdep[i], (s + ": values / coefficients / surrogate unchanged by a mutation of the other grid").c_str());
}
static void mutate(TasmanianSparseGrid &grid, const GridSpec &g, int base_id, int ob = 0, int full_outs = -1, bool refine = true){
  int d = g.dims; int my = grid.getNumOutputs(); if (full_outs < 0) full_outs = my;
  // the fresh model always has the outputs of the SOURCE; a copy restricted to [ob, ob+my) receives the matching slice of the same symbols
  SymModel full(full_outs, base_id, -1.0, 1.0, !grid.isWavelet());
  struct { SymModel *m; int ob, my, fo; std::vector<double> values(const std::vector<double> &pts, int dd){ std::vector<double> y = m->values(pts, dd); if (my == fo) return y; size_t n = y.size() / fo; std::vector<double> r(n * my); for (size_t i=0;i<n;i++) for (int k=0;k<my;k++) r[i * my + k] = y[i * fo + ob + k]; return r; } } fresh = {&full, ob, my, full_outs};
  if (grid.isUsingConstruction()){
    // several rounds so that parked samples get connected; the candidates are taken in lexicographic order (their priority order depends on the outputs)
    for (int round=0; round<3; round++){ // enough to connect the parked sample (two levels down)
      std::vector<double> cand = (grid.isLocalPolynomial() || grid.isWavelet()) ? grid.getCandidateConstructionPoints(0.0, refine_classic, -1, g.ll) : grid.getCandidateConstructionPoints(type_level, 0, g.ll);
      std::vector<std::vector<double>> cp; for (size_t i=0;i+d<=cand.size();i+=d) cp.push_back(std::vector<double>(cand.begin() + i, cand.begin() + i + d)); std::sort(cp.begin(), cp.end());
      size_t take = std::min<size_t>(cp.size(), 20); std::vector<double> x; for (size_t i=0;i<take;i++) x.insert(x.end(), cp[i].begin(), cp[i].end());
      if (!take) break;
      grid.loadConstructedPoints(x, fresh.values(x, d));
    }
    grid.finishConstruction();
  }
  if (grid.getNumNeeded() > 0) grid.loadNeededValues(fresh.values(grid.getNeededPoints(), d));
  else if (refine) grid.loadNeededValues(fresh.values(grid.getLoadedPoints(), d));     // overwrite every value (not in the compare-after-same-operations mode: it would hide what construction loaded)
  if (!refine) return;   // value-dependent refinement legitimately differs between a grid and a copy of a sub-range of its outputs
  if (grid.isLocalPolynomial() || grid.isWavelet()) grid.setSurplusRefinement(0.0, refine_classic, -1, g.ll);
  else if (!OneDimensionalMeta::isNonNested(grid.getRule())) grid.setAnisotropicRefinement(type_iptotal, 2, 0, g.ll);
  std::vector<double> a(d, -2.0), b(d, 3.0); if (g.rule.find("hermite") == std::string::npos && g.rule.find("laguerre") == std::string::npos) grid.setDomainTransform(a, b);
}

int main(int argc, char **argv){
  GridSpec g = parseSpec(argv[1]); int history = atoi(argv[2]), how = atoi(argv[3]), b = atoi(argv[4]), e = atoi(argv[5]), mut = atoi(argv[6]);
  int d = g.dims, outs = g.outputs;
  if (how != 3){ b = 0; e = outs; }
  TasmanianSparseGrid src; makeGrid(src, g);
  SymModel model(outs, 1000, -1.0, 1.0, g.family != "wavelet");
  std::vector<double> probe; for (int p=0;p<2;p++) for (int j=0;j<d;j++){ double lo = g.transform ? g.ta[j] : (g.family == "fourier" ? 0.0 : -1.0), hi = g.transform ? g.tb[j] : 1.0; probe.push_back(lo + (0.23 + 0.41 * p + 0.06 * j) * (hi - lo)); }
  if (history == 3){ if (outs > 0) solverChosenHistory(src, g, model, 3, 70); }
  else if (history == 2){
    src.beginConstruction();
    for (int round=0; round<2; round++){
      std::vector<double> cand = (src.isLocalPolynomial() || src.isWavelet()) ? src.getCandidateConstructionPoints(0.0, refine_fds, -1, g.ll) : src.getCandidateConstructionPoints(type_iptotal, 0, g.ll);
      size_t nc = cand.size() / d; size_t take = round == 0 ? nc : std::min<size_t>(nc, 1); if (!take) break;
      std::vector<double> x(cand.begin() + (round == 1 && nc > 1 ? d : 0), cand.begin() + (round == 1 && nc > 1 ? d : 0) + take * d);   // second round: a sample that may stay parked
      src.loadConstructedPoints(x, model.values(x, d));
    }
    // one sample far down the hierarchy: it is not connected to the loaded points and stays parked in the construction data
    { GridSpec deep = g; deep.depth = g.depth + 2; deep.ll.clear(); TasmanianSparseGrid dg; makeGrid(dg, deep); std::vector<double> dp = dg.getPoints(); int nd = dg.getNumPoints();
      std::vector<double> x(dp.begin() + (size_t) (nd - 1) * d, dp.begin() + (size_t) nd * d); int before = src.getNumLoaded();
      if (g.ll.empty()){ src.loadConstructedPoints(x, model.values(x, d)); fpsym_note("deep_sample_parked", src.getNumLoaded() == before); } }
  } else {
    src.loadNeededValues(model.values(src.getNeededPoints(), d));
    if (history == 1){ if (src.isLocalPolynomial() || src.isWavelet()) src.setSurplusRefinement(0.0, refine_classic, -1, g.ll); else src.setAnisotropicRefinement(type_iptotal, 2, 0, g.ll); }
  }
  if (how != 0){ // a grid assigned / copied onto itself is its own source: nothing may change (full output range)
    Obs before = observe(src, probe); TasmanianSparseGrid &alias = src;
    if (how == 1) src = alias; else if (how == 2) src.copyGrid(alias); else src.copyGrid(alias, 0, outs);
    unchanged(observe(src, probe), before, "grid assigned / copied onto itself (self-copy)");
  }
  if (how == 3 && !(b == 0 && e == outs)){ // copyGrid of a grid onto itself with an output range: the grid becomes its own restriction
    TasmanianSparseGrid twin(src); TasmanianSparseGrid &alias = twin; twin.copyGrid(alias, b, e);
    compare(observe(twin, probe), observe(src, probe), b, e, "grid copied onto itself with an output range (self-copy)");
  }
  TasmanianSparseGrid assigned;
  TasmanianSparseGrid *copy = nullptr; std::unique_ptr<TasmanianSparseGrid> holder;
  if (how == 0){ holder.reset(new TasmanianSparseGrid(src)); copy = holder.get(); }
  else {
    // the destination is a grid that has been used: other dimensions, a domain transform, a conformal map and level limits of its own must not survive the copy
    assigned.makeGlobalGrid(3, 2, 2, type_level, rule_clenshawcurtis, std::vector<int>(), 0.0, 0.0, nullptr, std::vector<int>{2, 1, 2});
    assigned.setDomainTransform(std::vector<double>{-3.0, 1.0, 0.0}, std::vector<double>{5.0, 2.0, 7.0}); assigned.setConformalTransformASIN(std::vector<int>{4, 6, 4});
    if (how == 1) assigned = src; else if (how == 2) assigned.copyGrid(src); else assigned.copyGrid(src, b, e);
    copy = &assigned;
  }
  Obs os = observe(src, probe), oc = observe(*copy, probe);
  compare(oc, os, b, e, "after copy");
  { // completeness as seen by write(): the image of the copy restores a grid with the same observables (a copy that answers queries
    // correctly but serialises incompletely is not a complete copy)
    std::stringstream ss(std::ios::in | std::ios::out | std::ios::binary); copy->write(ss, true); TasmanianSparseGrid rb; rb.read(ss, true);
    compare(observe(rb, probe), os, b, e, "grid restored from the binary image of the copy");
  }
  // pending construction data behaves the same: the same candidates are offered
  if (src.isUsingConstruction()){
    auto cands = [&](TasmanianSparseGrid &gr){ return (gr.isLocalPolynomial() || gr.isWavelet()) ? gr.getCandidateConstructionPoints(0.0, refine_classic, -1, g.ll) : gr.getCandidateConstructionPoints(type_level, 0, g.ll); };
    // the order of the candidates is a priority that depends on the outputs: for a strict sub-range compare them as sets
    auto canon = [&](std::vector<double> c){ if (!(b == 0 && e == outs)){ std::vector<std::vector<double>> p; for (size_t i=0;i+d<=c.size();i+=d) p.push_back(std::vector<double>(c.begin() + i, c.begin() + i + d)); std::sort(p.begin(), p.end()); c.clear(); for (auto &q : p) c.insert(c.end(), q.begin(), q.end()); } return c; };
    fpsym_check(canon(cands(src)) == canon(cands(*copy)), "after copy: the same construction candidates are offered by source and copy");
    os = observe(src, probe); oc = observe(*copy, probe);
  }
  // mutate one side, the other must not change
  if (mut == 0){ mutate(src, g, 7000); Obs now = observe(*copy, probe); unchanged(now, oc, "copy after mutating the source"); }
  else if (mut == 1){ mutate(*copy, g, 7000); Obs now = observe(src, probe); unchanged(now, os, "source after mutating the copy"); }
  else {
    // the same further operations (same fresh values) on source and copy: the copy must still be the restriction of the source
    mutate(src, g, 7000, 0, -1, false); mutate(*copy, g, 7000, b, outs, false);
    compare(observe(*copy, probe), observe(src, probe), b, e, "after the same further operations on source and copy");
    fpsym_note("loaded_after_further_operations", src.getNumLoaded());
  }
  if (model.symbolic && !os.outdep.empty() && history != 3) fpsym_nonconst(os.outdep[0], "witness: observables depend on the symbols");
  fpsym_finish(); return 0;
}
