// C07: refinement never loses or mis-associates data and selects what it documents.
// args: <grid spec> <ops> <output>   ops: comma separated, applied after the initial load
//   Sc Sp Sd Sf Ss : setSurplusRefinement(tol, classic|parents|direction|fds|stable, output, limits)   (local polynomial / wavelet)
//   Sv             : classic through the container overload with a symbolic scale correction of the documented size
//   Sg             : setSurplusRefinement(tol, output)  (sequence / global with sequence rule)      A : setAnisotropicRefinement
//   K : dynamic construction (beginConstruction, deliver the first <= 3 candidates in lexicographic order, finishConstruction)
//   ? : an operation chosen by the solver from the alphabet of the grid family (the path classes enumerate the histories)
//   L : loadNeededValues (needed points; when none are needed an overwriting reload with fresh values)  M : mergeRefinement  C : clearRefinement  U : updateGrid(depth+1)  Ud : updateGrid(same depth: nothing new is selected)
#include "tgrid.hpp"
#include <sstream>

typedef std::vector<double> Pt;
static std::vector<Pt> split(const std::vector<double> &p, int d){ std::vector<Pt> r; for (size_t i=0;i+d<=p.size();i+=d) r.push_back(Pt(p.begin() + i, p.begin() + i + d)); return r; }

struct Snapshot { std::vector<Pt> loaded, needed; std::vector<double> vals, probe; };
static Snapshot snap(const TasmanianSparseGrid &grid, const std::vector<double> &probe){
  Snapshot s; int d = grid.getNumDimensions(), outs = grid.getNumOutputs();
  s.loaded = split(grid.getLoadedPoints(), d); s.needed = split(grid.getNeededPoints(), d);
  const double *v = grid.getLoadedValues(); if (v && grid.getNumLoaded() > 0) s.vals.assign(v, v + (size_t) grid.getNumLoaded() * outs);
  if (grid.getNumLoaded() > 0 && outs > 0) grid.evaluateBatch(probe, s.probe);
  return s;
}

int main(int argc, char **argv){
  GridSpec g = parseSpec(argv[1]); std::string ops = argv[2]; int output = atoi(argv[3]);
  int d = g.dims, outs = g.outputs;
  TasmanianSparseGrid grid; makeGrid(grid, g);
  SymModel model(outs, 1000, -1.0, 1.0, g.family != "wavelet");
  bool zeroed = false;   // true right after a mergeRefinement (until values are supplied again): the surrogate must be zero
  bool all_zero = false; // no symbolic value has been supplied since the last merge
  std::vector<double> probe; for (int p=0;p<2;p++) for (int j=0;j<d;j++){ double lo = g.transform ? g.ta[j] : (g.family == "fourier" ? 0.0 : -1.0), hi = g.transform ? g.tb[j] : 1.0; probe.push_back(lo + (0.31 + 0.27 * p + 0.05 * j) * (hi - lo)); }
  std::vector<std::string> steps; { std::stringstream ss(ops); std::string it; steps.push_back("L"); while (std::getline(ss, it, ',')) if (!it.empty()) steps.push_back(it); }
  int step_no = 0;
  for (auto &op : steps){
    if (op == "?"){
      // solver-chosen operation: the choice is a symbolic integer, every alternative is a path class of the exploration
      static const char *glob[] = {"L", "A", "U", "Ud", "C", "M", "K", "Sg"}; static const char *loc[] = {"L", "Sc", "Sf", "Ss", "Sp", "C", "M", "K", "Sv"};
      bool local = grid.isLocalPolynomial() || grid.isWavelet();
      int nalt = local ? (grid.isLocalPolynomial() ? 9 : 8) : ((grid.isSequence() || (grid.isGlobal() && OneDimensionalMeta::isSequence(grid.getRule()))) ? 8 : 7);
      int pick = fpsym_choice(40 + step_no, nalt, (3 * step_no + 1) % nalt);
      op = local ? loc[pick] : glob[pick];
      fpsym_note(("history_step_" + std::to_string(step_no)).c_str(), pick);
    }
    Snapshot before = snap(grid, probe);
    std::string tag = "step " + std::to_string(step_no) + " (" + op + "): ";
    if (op == "K"){
      if (grid.getNumLoaded() == 0 && grid.getNumNeeded() == 0){ step_no++; continue; }
      grid.beginConstruction();
      bool local = grid.isLocalPolynomial() || grid.isWavelet();
      std::vector<double> cand = local ? grid.getCandidateConstructionPoints(0.0, refine_classic, -1, g.ll) : grid.getCandidateConstructionPoints(type_level, 0, g.ll);
      std::vector<Pt> cp = split(cand, d); std::sort(cp.begin(), cp.end());    // the priority order depends on the values: take them in lexicographic order
      size_t take = std::min<size_t>(cp.size(), 3); std::vector<double> x; for (size_t i=0;i<take;i++) x.insert(x.end(), cp[i].begin(), cp[i].end());
      if (take) grid.loadConstructedPoints(x, model.values(x, d));
      grid.finishConstruction();
      zeroed = false; if (take) all_zero = false;
      Snapshot after = snap(grid, probe);
      bool kept = true; for (auto &p : before.loaded) if (std::find(after.loaded.begin(), after.loaded.end(), p) == after.loaded.end()) kept = false;
      fpsym_check(kept, (tag + "construction never removes a loaded point").c_str());
      fpsym_check(after.needed.empty(), (tag + "beginConstruction() drops a pending refinement: nothing is needed after finishConstruction()").c_str());
      fpsym_check(after.loaded.size() <= before.loaded.size() + take, (tag + "construction loads at most the delivered samples").c_str());
      if (outs > 0 && !after.loaded.empty() && (!grid.isLocalPolynomial() || lpParentComplete(grid))){
        int nl = (int) after.loaded.size(); std::set<int> pick = {0, nl / 2, nl - 1};
        for (int i : pick){ std::vector<double> y; grid.evaluate(after.loaded[i], y); const std::vector<double> &want = model.at(after.loaded[i]);
          for (int k=0;k<outs;k++) fpsym_eq(y[k], want[k], 50.0 * (2.0 + nl), (tag + "after construction the surrogate reproduces the supplied value at its coordinates").c_str()); }
      }
    } else if (op == "L"){
      if (grid.getNumNeeded() > 0){ grid.loadNeededValues(model.values(grid.getNeededPoints(), d)); }
      else { model.renew(); model.next_id = 3000 + 500 * step_no; grid.loadNeededValues(model.values(grid.getLoadedPoints(), d)); }
      zeroed = false; all_zero = false;
      Snapshot after = snap(grid, probe);
      // exactly the needed points became loaded, none was removed
      fpsym_check(after.needed.empty(), (tag + "no needed points remain after a load").c_str());
      bool kept = true; for (auto &p : before.loaded) if (std::find(after.loaded.begin(), after.loaded.end(), p) == after.loaded.end()) kept = false;
      bool added = true; for (auto &p : before.needed) if (std::find(after.loaded.begin(), after.loaded.end(), p) == after.loaded.end()) added = false;
      fpsym_check(kept, (tag + "a load never removes a loaded point").c_str());
      fpsym_check(added, (tag + "every needed point becomes loaded").c_str());
      fpsym_check(after.loaded.size() == before.loaded.size() + (before.needed.empty() ? 0 : before.needed.size()), (tag + "loading makes exactly the needed points loaded").c_str());
      // attachment as seen through the surrogate: it reproduces the supplied value at the coordinates it was supplied for
      if (outs > 0 && (!grid.isLocalPolynomial() || lpParentComplete(grid))){
        int nl = (int) after.loaded.size(); std::set<int> pick = {0, nl / 2, nl - 1};
        for (int i : pick){ std::vector<double> y; grid.evaluate(after.loaded[i], y); const std::vector<double> &want = model.at(after.loaded[i]);
          for (int k=0;k<outs;k++) fpsym_eq(y[k], want[k], 50.0 * (2.0 + nl), (tag + "after a load the surrogate reproduces the supplied value at its coordinates").c_str()); }
      }
    } else {
      double tol = fpsym_symbolic(0.02 + 0.05 * (step_no % 3), 5 + step_no, 0.0, 0.5);
      bool is_refine = true;
      if (op == "Sc" || op == "Sp" || op == "Sd" || op == "Sf" || op == "Ss"){
        const char *nm = op == "Sc" ? "classic" : op == "Sp" ? "parents" : op == "Sd" ? "direction" : op == "Sf" ? "fds" : "stable";
        std::vector<Pt> want; bool exact = (op == "Sc") && !g.ll.empty();
        if (exact){
          // classic criterion with level limits: exactly the children of the unlimited proposal whose 1-D levels respect the limits (levels taken from
          // the point sets of 1-D grids of that depth, not from the library's level function)
          TasmanianSparseGrid twin(grid); twin.clearLevelLimits(); twin.setSurplusRefinement(tol, refine_classic, output, std::vector<int>());
          std::vector<std::vector<double>> adm(d);
          for (int j=0;j<d;j++){ if (g.ll[j] < 0) continue; GridSpec s1 = g; s1.dims = 1; s1.outputs = 0; s1.depth = g.ll[j]; s1.ll.clear(); s1.aw.clear(); if (g.transform){ s1.ta = {g.ta[j]}; s1.tb = {g.tb[j]}; } TasmanianSparseGrid one; makeGrid(one, s1); adm[j] = one.getPoints(); }
          for (auto &p : split(twin.getNeededPoints(), d)){ bool ok = true; for (int j=0;j<d;j++){ if (g.ll[j] < 0) continue; bool in = false; for (double v : adm[j]) if (std::fabs(v - p[j]) < 1e-11) in = true; if (!in) ok = false; } if (ok) want.push_back(p); }
        }
        // tolerance exactly zero (a class of its own, constructed by the solver): every admissible child of every loaded point is proposed, whatever the
        // coefficients are (exact zeros after a merge or for a vanishing output included). Oracle: the proposal for a twin with the same points and generic non-zero coefficients.
        std::vector<Pt> want0; bool zero_tol = (tol == 0.0) && grid.getNumLoaded() > 0 && outs > 0;
        if (zero_tol){
          TasmanianSparseGrid twin(grid); int nc = grid.getNumLoaded() * outs; std::vector<double> h(nc); for (int i=0;i<nc;i++) h[i] = 0.3 + 0.01 * (i % 17);
          twin.setHierarchicalCoefficients(h); twin.setSurplusRefinement(0.0, IO::getTypeRefinementString(nm), output, g.ll); want0 = split(twin.getNeededPoints(), d); std::sort(want0.begin(), want0.end());
        }
        grid.setSurplusRefinement(tol, IO::getTypeRefinementString(nm), output, g.ll);
        if (zero_tol){ std::vector<Pt> got0 = split(grid.getNeededPoints(), d); std::sort(got0.begin(), got0.end()); fpsym_note("zero_tolerance_class", (long) want0.size());
          fpsym_check(got0 == want0, (tag + "tolerance zero proposes every admissible child, also where a coefficient is exactly zero").c_str()); }
        if (exact){ std::vector<Pt> got = split(grid.getNeededPoints(), d); std::sort(got.begin(), got.end()); std::sort(want.begin(), want.end());
          fpsym_check(got == want, (tag + "classic refinement with level limits proposes exactly the admissible children of the unlimited proposal").c_str()); }
      } else if (op == "Sv"){
        int nl = grid.getNumLoaded(); size_t ns = (size_t) nl * (output == -1 ? outs : 1);   // the documented size
        std::vector<double> sc(ns); for (size_t i=0;i<ns;i++) sc[i] = fpsym_symbolic(1.0 + 0.1 * (i % 4), 8000 + 200 * step_no + (int) i, 0.25, 2.0);
        bool threw = false;
        try { grid.setSurplusRefinement(tol, refine_classic, output, g.ll, sc); } catch (std::invalid_argument &){ threw = true; }
        fpsym_check(!threw, (tag + "scale correction of the documented size (getNumLoaded() x active outputs) is accepted").c_str());
        if (threw){ fpsym_finish(); return 0; }
        // oracle for the classic criterion, evaluated by the harness on the same coefficient expressions
        if (grid.isLocalPolynomial()){
          const double *c = grid.getHierarchicalCoefficients(); const double *v = grid.getLoadedValues(); const int *idx = grid.getPointsIndexes();
          RuleLocal::erule r = RuleLocal::getEffectiveRule(grid.getOrder(), grid.getRule());
          std::vector<double> norm(outs, 0.0); for (int i=0;i<nl;i++) for (int k=0;k<outs;k++) if (norm[k] < std::fabs(v[(size_t) i * outs + k])) norm[k] = std::fabs(v[(size_t) i * outs + k]);
          std::set<std::vector<int>> have; for (int i=0;i<nl;i++) have.insert(std::vector<int>(idx + (size_t) i * d, idx + (size_t) (i + 1) * d));
          std::set<std::vector<int>> expect;
          for (int i=0;i<nl;i++){
            bool small = true;
            if (output == -1){ for (int k=0;k<outs;k++) small = small && ((sc[(size_t) i * outs + k] * std::fabs(c[(size_t) i * outs + k]) / norm[k]) <= tol); }
            else small = ((sc[i] * std::fabs(c[(size_t) i * outs + output]) / norm[output]) <= tol);
            if (tol == 0.0) small = false;   // documented: tolerance zero proposes every admissible child
            if (small) continue;
            std::vector<int> p(idx + (size_t) i * d, idx + (size_t) (i + 1) * d);
            for (int j=0;j<d;j++) for (int kid=0;kid<(r == RuleLocal::erule::pwc ? 4 : 2);kid++){ int q = lpKid(r, p[j], kid); if (q < 0) continue; if (!g.ll.empty() && g.ll[j] >= 0 && lpLevel(r, q) > g.ll[j]) continue; std::vector<int> c2 = p; c2[j] = q; if (!have.count(c2)) expect.insert(c2); }
          }
          int nn = grid.getNumNeeded(); const int *nidx = nn > 0 ? grid.getNeededIndexes() : nullptr; std::set<std::vector<int>> got; for (int i=0;i<nn;i++) got.insert(std::vector<int>(nidx + (size_t) i * d, nidx + (size_t) (i + 1) * d));
          fpsym_check(got == expect, (tag + "classic refinement proposes exactly the missing children (within the limits) of the points whose scaled, normalized coefficient exceeds the tolerance").c_str());
          fpsym_note("classic_expected", (long) expect.size());
        }
      } else if (op == "Sg"){ grid.setSurplusRefinement(tol, output < 0 ? 0 : output, g.ll);
      } else if (op == "A"){ grid.setAnisotropicRefinement(type_iptotal, 2, output < 0 ? 0 : output, g.ll);
      } else if (op == "Ud"){ if (g.family == "localp" || g.family == "wavelet"){ fpsym_finish(); return 0; } grid.updateGrid(g.depth, IO::getDepthTypeString(g.type), g.aw, g.ll);
      } else if (op == "U"){ if (g.family == "localp" || g.family == "wavelet"){ fpsym_finish(); return 0; } grid.updateGrid(g.depth + 1, IO::getDepthTypeString(g.type), g.aw, g.ll);
      } else if (op == "C"){ grid.clearRefinement();
      } else if (op == "M"){ bool had_needed = grid.getNumNeeded() > 0; grid.mergeRefinement(); is_refine = !had_needed;   // without needed points the merge is a no-op
        if (had_needed){ zeroed = true; all_zero = true; model.table.clear(); for (auto &p : split(grid.getLoadedPoints(), d)) model.table[p] = std::vector<double>(outs, 0.0); }   // documented: every value is zero now (the model follows)
      } else { fprintf(stderr, "bad op %s\n", op.c_str()); return 9; }
      Snapshot after = snap(grid, probe);
      if (is_refine){
        // loaded points, their values and the current surrogate are untouched
        fpsym_check(after.loaded == before.loaded, (tag + "refinement / update / clear never change the loaded points").c_str());
        if (after.vals.size() == before.vals.size()) for (size_t i=0;i<after.vals.size();i++) fpsym_ident(after.vals[i], before.vals[i], (tag + "refinement / update / clear never change the loaded values").c_str());
        else fpsym_check(false, (tag + "number of loaded values changed").c_str());
        if (after.probe.size() == before.probe.size()) for (size_t i=0;i<after.probe.size();i++) fpsym_ident(after.probe[i], before.probe[i], (tag + "refinement / update / clear never change the current surrogate").c_str());
        if (op == "C") fpsym_check(after.needed.empty() || before.loaded.empty(), (tag + "clearRefinement drops the needed points").c_str());
      }
      fpsym_note(("needed_after_" + op).c_str(), (long) after.needed.size());
    }
    // ---- invariants after every step
    Snapshot now = snap(grid, probe);
    bool dup = false; for (size_t i=0;i<now.loaded.size();i++) for (size_t j=i+1;j<now.loaded.size();j++) if (now.loaded[i] == now.loaded[j]) dup = true;
    for (size_t i=0;i<now.needed.size();i++) for (size_t j=i+1;j<now.needed.size();j++) if (now.needed[i] == now.needed[j]) dup = true;
    bool inter = false; for (auto &p : now.needed) if (std::find(now.loaded.begin(), now.loaded.end(), p) != now.loaded.end()) inter = true;
    fpsym_check(!dup, (tag + "loaded and needed point sets are duplicate-free").c_str());
    fpsym_check(!inter, (tag + "loaded and needed point sets are disjoint").c_str());
    if (zeroed) for (size_t i=0;i<now.probe.size();i++) fpsym_eq(now.probe[i], 0.0, 1.0, (tag + "after mergeRefinement the surrogate is zero as well (its coefficients belong to the zero values)").c_str());
    // every value is attached to the coordinates it was supplied for
    for (size_t i=0;i<now.loaded.size();i++){
      const std::vector<double> &want = model.at(now.loaded[i]);
      for (int k=0;k<outs;k++) fpsym_ident(now.vals[i * outs + k], want[k], (tag + "stored value is the one supplied for these coordinates").c_str());
    }
    step_no++;
  }
  if (model.symbolic && grid.getNumLoaded() > 0 && !all_zero){
    // a stored value that was supplied after the last merge (values zeroed by a merge are constants)
    std::vector<Pt> lp = split(grid.getLoadedPoints(), d); const double *v = grid.getLoadedValues(); int pick = -1;
    for (size_t i=0;i<lp.size() && pick < 0;i++){ auto it = model.first_id.find(lp[i]); auto t = model.table.find(lp[i]); if (it != model.first_id.end() && t != model.table.end() && !(t->second == std::vector<double>(outs, 0.0))) pick = (int) i; }
    if (pick >= 0) fpsym_nonconst(v[(size_t) pick * outs], "witness: stored values are symbolic");
  }
  fpsym_finish(); return 0;
}
