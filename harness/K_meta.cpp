// Engine K: the one-dimensional meta tables (number of points, interpolation / quadrature exactness) for ALL rules and levels <= MAXL,
// decided by CBMC bit-precisely with signed-overflow checks. Build: -DCHECK=<k> -DMAXL=<n> [-DWITNESS]
#include "tsgCoreOneDimensional.cpp"
extern "C" { int nondet_int(); void __VERIFIER_assume(int); void vp_assert(int cond, int id); }
using namespace TasGrid;
extern "C" __attribute__((noinline)) void harness_rule(){
  int ir = nondet_int(); __VERIFIER_assume(ir >= 1 && ir <= 35);      // all global rules of the int map except custom-tabulated (36), local rules, wavelet, fourier
  TypeOneDRule rule = IO::getRuleInt(ir);
  int l = nondet_int(); __VERIFIER_assume(l >= 0 && l < MAXL);
  int n = OneDimensionalMeta::getNumPoints(l, rule), n1 = OneDimensionalMeta::getNumPoints(l + 1, rule);
  int ie = OneDimensionalMeta::getIExact(l, rule), qe = OneDimensionalMeta::getQExact(l, rule);
#if CHECK == 1
  vp_assert(n >= 1, 71);                                                        // K71: every level has at least one point
  vp_assert(n1 > n, 72);                                                        // K72: the number of points grows strictly with the level
#elif CHECK == 2
  // K73: n points interpolate polynomials of degree n-1 exactly (clenshaw-curtis-zero counts the degree of f = (1-x^2) q: the table uses n + 2)
  vp_assert(ie == ((rule == rule_clenshawcurtis0) ? n + 2 : n - 1), 73);
#elif CHECK == 3
  // K74: a quadrature built on an interpolant is at least as exact as the interpolant, and never more than Gaussian (2n-1; +2 for clenshaw-curtis-zero)
  vp_assert(qe >= ie - ((rule == rule_clenshawcurtis0) ? 3 : 0) - 1 && qe <= 2 * n + 1, 74);
#endif
#ifdef WITNESS
  vp_assert(0, 99);
#endif
}
