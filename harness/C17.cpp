// C17: constructSurrogate checkpoints (sequential mode). Plain program (no symbolic data): it is run under strace to record the
// file-system operation trace, and run again on materialised post-crash directories.
// args: <grid spec> <budget> <batch>[p] <workdir>   (batch followed by 'L': the initial points are loaded by the caller, budget = further samples; batch followed by 'p': the caller's grid is already in construction and holds a parked sample, e.g. read from an earlier interrupted run)     checkpoint file: <workdir>/ck ; model calls are logged by write(2) to <workdir>/calls.log
#include "TasmanianAddons.hpp"
#include "tgrid.hpp"
#include <fcntl.h>
#include <cstring>
#include <unistd.h>

int main(int argc, char **argv){
  GridSpec g = parseSpec(argv[1]); size_t budget = (size_t) atoi(argv[2]), batch = (size_t) atoi(argv[3]); std::string dir = argv[4];
  int d = g.dims, outs = g.outputs;
  TasmanianSparseGrid grid; makeGrid(grid, g);
  if (strchr(argv[3], 'p')){
    // a sample far down the hierarchy / far out in the tensor order: it cannot be connected to the grid yet and stays parked in the construction data,
    // so every checkpoint image carries a non-empty list of parked samples
    grid.beginConstruction();
    GridSpec deep = g; deep.depth = g.depth + 2; deep.ll.clear(); TasmanianSparseGrid dg; makeGrid(dg, deep); std::vector<double> dp = dg.getPoints(); int nd = dg.getNumPoints();
    std::vector<double> x(dp.begin() + (size_t) (nd - 1) * d, dp.begin() + (size_t) nd * d), y(outs); for (int k=0;k<outs;k++) y[k] = SymModel::dflt(x, k);
    grid.loadConstructedPoints(x, y);
  }
  int preloaded = 0;
  if (strchr(argv[3], 'L')){
    // the caller's grid already holds its initial points (>= 1000 for the configurations that use this): finished samples then wait in the side storage that
    // the checkpoint appends after the grid, and <budget> is the number of further samples
    std::vector<double> np = grid.getNeededPoints(); size_t nn = np.size() / d; std::vector<double> vv(nn * outs);
    for (size_t i=0;i<nn;i++){ std::vector<double> p(np.begin() + i * d, np.begin() + (i + 1) * d); for (int k=0;k<outs;k++) vv[i * outs + k] = SymModel::dflt(p, k); }
    grid.loadNeededValues(vv); preloaded = (int) nn; budget += nn;
  }
  int logfd = open((dir + "/calls.log").c_str(), O_WRONLY | O_CREAT | O_APPEND, 0644);
  int calls = 0; int die_at = getenv("VERIF_DIE_AT_CALL") ? atoi(getenv("VERIF_DIE_AT_CALL")) : 0;
  auto model = [&](std::vector<double> const &x, std::vector<double> &y, size_t)->void{
    size_t np = x.size() / d; y.resize(np * outs);
    for (size_t i=0;i<np;i++){
      if (die_at > 0 && calls + 1 == die_at) _exit(9);   // second crash of a two-crash history: the process dies at the start of this model call
      std::vector<double> p(x.begin() + i * d, x.begin() + (i + 1) * d);
      for (int k=0;k<outs;k++) y[i * outs + k] = SymModel::dflt(p, k);
      char buf[256]; int n = snprintf(buf, sizeof buf, "CALL"); for (int j=0;j<d;j++) n += snprintf(buf + n, sizeof buf - n, " %.17g", p[j]); n += snprintf(buf + n, sizeof buf - n, "\n");
      if (write(logfd, buf, n) != n) _exit(7);
      calls++;
    }
  };
  bool local = grid.isLocalPolynomial() || grid.isWavelet();
  int status = 0; std::string what;
  try {
    if (local) constructSurrogate<mode_sequential>(model, budget, 1, batch, grid, 1.E-9, refine_fds, -1, g.ll, dir + "/ck");
    else constructSurrogate<mode_sequential>(model, budget, 1, batch, grid, type_level, std::vector<int>(d, 1), g.ll, dir + "/ck");
    grid.finishConstruction();
  } catch (std::exception &e){ status = 1; what = e.what(); }
  double err = 0; int n = grid.empty() ? 0 : grid.getNumLoaded();
  if (status == 0 && n > 0){
    std::vector<double> lp = grid.getLoadedPoints(), y; grid.evaluateBatch(lp, y);
    if (!grid.isLocalPolynomial() || lpParentComplete(grid)) for (int i=0;i<n;i++){ std::vector<double> p = pointAt(lp, d, i); for (int k=0;k<outs;k++) err = std::max(err, std::fabs(y[(size_t) i * outs + k] - SymModel::dflt(p, k))); }
    const double *v = grid.getLoadedValues();
    for (int i=0;i<n;i++){ std::vector<double> p = pointAt(lp, d, i); for (int k=0;k<outs;k++) err = std::max(err, std::fabs(v[(size_t) i * outs + k] - SymModel::dflt(p, k))); }
  }
  printf("RESULT status=%d loaded=%d calls=%d err=%.3e what=%s\n", status, n > preloaded ? n - preloaded : 0, calls, err, what.c_str());   // (points supplied by the caller are not counted)
  close(logfd);
  return status;
}
