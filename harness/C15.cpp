// C15: DREAM sampling is memory-safe, stays in the domain and keeps consistent books.
// args: chains dims burnup collect form(0 reg,1 log) update(0 none,1 uniform,2 gaussian,3 user) split(0 / c1: second run after the first c1 collected iterations) [reseed: 0 none, 1 setState(vector), 2 setState(function) between the two runs]
#include "TasmanianDREAM.hpp"
#include "fpsym.h"
#include <map>
using namespace TasDREAM;

struct Ev { int kind; double v; std::vector<double> x; bool in; std::vector<double> vals; }; // kind: 0 rng, 1 weight, 2 inside, 3 pdf batch
struct World {
  int C, D, form, update; int n_rng = 0, n_w = 0;
  std::map<std::vector<fpsym_key_t>, int> ids; std::vector<Ev> ev;
  int idOf(const std::vector<double> &x){ auto k = fpsym_keys(x); auto it = ids.find(k); int n; if (it != ids.end()) n = it->second; else { n = (int) ids.size(); ids[k] = n; } return (int) fpsym_recorded(n); }
  // default values are functions of the coordinates (not of the numbering) so that the plain and the instrumented build agree on them
  static double mix(const std::vector<double> &x){ double s = 0.37; for (size_t d=0;d<x.size();d++) s += (3.7 + d) * fpsym_concrete(x[d]); s = s - std::floor(s); return s; }
  double pdfOf(const std::vector<double> &x){ int id = idOf(x); double m = mix(x); return form == 0 ? fpsym_symbolic(0.1 + 1.5 * m, 2000 + id, 0.05, 2.0) : fpsym_symbolic(-2.0 + 4.0 * m, 2000 + id, -3.0, 3.0); }
  template<TypeSamplingForm F> void sample(int burn, int collect, TasmanianDREAM &state){
    auto pdf = [&](const std::vector<double> &cand, std::vector<double> &vals)->void{
      for (size_t i=0;i<vals.size();i++){ std::vector<double> x(cand.begin() + i * D, cand.begin() + (i + 1) * D); vals[i] = pdfOf(x); }
      ev.push_back({3, 0.0, cand, false, vals}); };
    auto inside = [&](const std::vector<double> &x)->bool{ int id = idOf(x); bool in = fpsym_flag(1000 + id, mix(x) < 0.8); ev.push_back({2, 0.0, x, in, {}}); return in; };
    auto rng = [&]()->double{ double u = fpsym_symbolic(0.15 + 0.21 * (n_rng % 4), 3000 + n_rng, 0.0, 1.0); n_rng++; ev.push_back({0, u, {}, false, {}}); return u; };
    auto weight = [&]()->double{ double w = fpsym_symbolic(0.5 + 0.125 * (n_w % 3), 4000 + n_w, 0.0, 1.0); n_w++; ev.push_back({1, w, {}, false, {}}); return w; };
    if (update == 0) SampleDREAM<F>(burn, collect, pdf, inside, state, no_update, weight, rng);
    else if (update == 1) SampleDREAM<F>(burn, collect, pdf, inside, state, dist_uniform, 0.25, weight, rng);
    else if (update == 2) SampleDREAM<F>(burn, collect, pdf, inside, state, dist_gaussian, 0.25, weight, rng);
    else SampleDREAM<F>(burn, collect, pdf, inside, state, [&](std::vector<double> &x)->void{ for (auto &v : x) v += 0.125 * (2.0 * rng() - 1.0); }, weight, rng);
  }
  void run(int burn, int collect, TasmanianDREAM &state){ if (form == 0) sample<regform>(burn, collect, state); else sample<logform>(burn, collect, state); }
};

int main(int argc, char **argv){
  int C = atoi(argv[1]), D = atoi(argv[2]), burn = atoi(argv[3]), collect = atoi(argv[4]), form = atoi(argv[5]), update = atoi(argv[6]), split = atoi(argv[7]); int reseed = argc > 8 ? atoi(argv[8]) : 0;
  World w; w.C = C; w.D = D; w.form = form; w.update = update;
  std::vector<double> init(C * D); for (int i=0;i<C*D;i++) init[i] = fpsym_symbolic(-0.6 + 0.37 * i, 10 + i, -1.0, 1.0);
  TasmanianDREAM state(C, D); state.setState(init);
  // the initial state is inside the domain by assumption: its points are known to the world with that verdict; their pdf values
  // are requested by the sampler itself
  size_t h0 = state.getHistory().size();
  if (split > 0){
    w.run(burn, split, state);
    if (reseed){ // the chains are moved by the user between two runs: the probability values of the old positions must not be reused
      std::vector<double> ns(C * D); for (int i=0;i<C*D;i++) ns[i] = fpsym_symbolic(0.45 - 0.31 * i, 60 + i, -1.0, 1.0);
      if (reseed == 1) state.setState(ns); else { int q = 0; state.setState([&](double *x)->void{ for (int d=0;d<D;d++) x[d] = ns[q * D + d]; q++; }); }
      w.ev.push_back({4, 0.0, ns, false, {}});
    }
    w.run(0, collect - split, state); }
  else w.run(burn, collect, state);
  // ---------------- oracle: replay the documented Metropolis step over the logged callbacks
  std::vector<std::vector<double>> cur(C); std::vector<double> curp(C);
  for (int i=0;i<C;i++) cur[i] = std::vector<double>(init.begin() + i * D, init.begin() + (i + 1) * D);
  size_t p = 0; const std::vector<Ev> &ev = w.ev;
  fpsym_check(!ev.empty() && ev[0].kind == 3 && (int) ev[0].vals.size() == C, "initial probability values requested for all chains");
  if (ev.empty() || ev[0].kind != 3){ fpsym_finish(); return 0; }
  for (int i=0;i<C;i++){ curp[i] = ev[0].vals[i]; for (int d=0;d<D;d++) fpsym_ident(ev[0].x[i * D + d], init[i * D + d], "initial pdf evaluated at the initial state"); }
  p = 1;
  int total = std::max(burn, 0) + std::max(collect, 0);
  const std::vector<double> hist = state.getHistory(); const std::vector<double> phist = state.getHistoryPDF();
  fpsym_check(hist.size() - h0 == (size_t) collect * C * D, "history grew by exactly num_collect x chains samples");
  fpsym_check(phist.size() == (size_t) collect * C, "pdf history grew by exactly num_collect x chains values");
  size_t hpos = h0; size_t ppos = 0; bool parse_ok = true;
  for (int t = 0; t < total && parse_ok; t++){
    if (p < ev.size() && ev[p].kind == 4){
      // re-seeded state: the sampler has to evaluate the probability of the new positions before it continues
      const std::vector<double> ns = ev[p].x; p++;
      bool ok = p < ev.size() && ev[p].kind == 3 && (int) ev[p].vals.size() == C;
      fpsym_check(ok, "after the state is replaced the probability values are evaluated again for all chains");
      if (!ok){ parse_ok = false; break; }
      for (int i=0;i<C;i++){ cur[i] = std::vector<double>(ns.begin() + i * D, ns.begin() + (i + 1) * D); curp[i] = ev[p].vals[i]; for (int d=0;d<D;d++) fpsym_ident(ev[p].x[i * D + d], ns[i * D + d], "pdf re-evaluated at the re-seeded state"); }
      p++;
    }
    std::vector<std::vector<double>> prop(C); std::vector<bool> valid(C);
    for (int i=0;i<C && parse_ok;i++){
      // chain i: two index draws, one differential weight, optional update draws, one domain test
      std::vector<double> draws; double wgt = 0; bool gotw = false;
      while (p < ev.size() && ev[p].kind != 2){ if (ev[p].kind == 0) draws.push_back(ev[p].v); else if (ev[p].kind == 1){ wgt = ev[p].v; gotw = true; } else { parse_ok = false; break; } p++; }
      if (!parse_ok || p >= ev.size() || draws.size() < 2 || !gotw){ parse_ok = false; break; }
      prop[i] = ev[p].x; valid[i] = ev[p].in; p++;
      size_t j = (size_t) (draws[0] * (double) C), k = (size_t) (draws[1] * (double) C);
      if (j >= (size_t) C) j = C - 1; if (k >= (size_t) C) k = C - 1;
      if (update == 0 || update == 3){
        for (int d=0;d<D;d++){
          double expect = cur[i][d] + wgt * (cur[k][d] - cur[j][d]);
          if (update == 3) expect += 0.125 * (2.0 * draws[2 + d] - 1.0);
          fpsym_eq(prop[i][d], expect, 10.0, "proposal = s_i + w (s_k - s_j) (+ user update) with chain indexes in range");
        }
      }
    }
    if (!parse_ok) break;
    int nvalid = 0; for (int i=0;i<C;i++) if (valid[i]) nvalid++;
    std::vector<double> newv;
    if (nvalid > 0){
      if (p >= ev.size() || ev[p].kind != 3 || (int) ev[p].vals.size() != nvalid){ parse_ok = false; break; }
      newv = ev[p].vals;
      int q = 0; for (int i=0;i<C;i++) if (valid[i]){ for (int d=0;d<D;d++) fpsym_ident(ev[p].x[q * D + d], prop[i][d], "pdf is evaluated exactly at the proposals inside the domain"); q++; }
      p++;
    }
    int q = 0;
    for (int i=0;i<C;i++){
      bool keep = false; double pn = 0;
      if (valid[i]){
        pn = newv[q++];
        if (pn > curp[i]) keep = true;
        else {
          if (p >= ev.size() || ev[p].kind != 0){ parse_ok = false; break; }
          double u = ev[p].v; p++;
          keep = form == 0 ? (pn / curp[i] >= u) : (pn - curp[i] >= std::log(u));
        }
      }
      if (keep){ cur[i] = prop[i]; curp[i] = pn; }
    }
    if (!parse_ok) break;
    if (t >= burn){
      for (int i=0;i<C;i++){
        for (int d=0;d<D;d++) fpsym_ident(hist[hpos + i * D + d], cur[i][d], "recorded sample is the proposal iff inside and accepted by the Metropolis test, else the old state");
        fpsym_ident(phist[ppos + i], curp[i], "recorded probability is the value returned for the recorded sample");
      }
      hpos += (size_t) C * D; ppos += C;
    }
  }
  fpsym_check(parse_ok && p == ev.size(), "callback protocol: per chain two index draws, weight, update, domain test; one batch evaluation; acceptance draws");
  std::vector<double> fin = state.getChainState();
  if (parse_ok) for (int i=0;i<C;i++) for (int d=0;d<D;d++) fpsym_ident(fin[i * D + d], cur[i][d], "final chain state follows the Metropolis rule");
  // every recorded sample satisfied the domain test (or is the initial state)
  // (cur[i] is always the initial point or a proposal with a true verdict: follows from the ident obligations above and valid[i])
  if (total > 0) fpsym_nonconst(fin[0], "witness: chain state depends on the inputs");
  fpsym_finish(); return 0;
}
