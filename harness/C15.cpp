// C15: DREAM sampling is memory-safe, stays in the domain and keeps consistent books.
// args: chains dims burnup collect form(0 reg,1 log) update(0 none,1 uniform,2 gaussian,3 user) split(0 / c1: second run after the first c1 collected iterations) [reseed: 0 none, 1 setState(vector), 2 setState(function) between the two runs] [iface: 0 C++ templates, 1 the C interface tsgDreamSample()] [twice: 1 = a second, un-split experiment with the same symbolic stream follows in the same process and must give the same result]
#include "TasmanianDREAM.hpp"
#include "fpsym.h"
#include <map>
using namespace TasDREAM;

struct Ev { int kind; double v; std::vector<double> x; bool in; std::vector<double> vals; }; // kind: 0 rng, 1 weight, 2 inside, 3 pdf batch
struct World {
  int C, D, form, update; int n_rng = 0, n_w = 0;
  std::map<std::vector<fpsym_key_t>, int> ids; std::vector<Ev> ev;
  int idOf(const std::vector<double> &x){ auto k = fpsym_keys(x); auto it = ids.find(k); int n; if (it != ids.end()) n = it->second; else { n = (int) ids.size(); ids[k] = n; } return (int) fpsym_recorded(n); }
  // default values are functions of the coordinates (not of the numbering) so that the plain and the instrumented build agree on them
  static double mix(const std::vector<double> &x){ double s = 0.37; for (size_t d=0;d<x.size();d++) s += (3.7 + d) * fpsym_concrete(x[d]); s = s - std::floor(s); return s; }
  bool zero_region = false;
  double pdfOf(const std::vector<double> &x){ int id = idOf(x); double m = mix(x); if (zero_region && form == 0 && m < 0.5) return 0.0; return form == 0 ? fpsym_symbolic(0.1 + 1.5 * m, 2000 + id, 0.05, 2.0) : fpsym_symbolic(-2.0 + 4.0 * m, 2000 + id, -3.0, 3.0); }
  void cb_pdf(const std::vector<double> &cand, std::vector<double> &vals){
    for (size_t i=0;i<vals.size();i++){ std::vector<double> x(cand.begin() + i * D, cand.begin() + (i + 1) * D); vals[i] = pdfOf(x); }
    ev.push_back({3, 0.0, cand, false, vals}); }
  bool cb_inside(const std::vector<double> &x){ int id = idOf(x); bool in = fpsym_flag(1000 + id, mix(x) < 0.8); ev.push_back({2, 0.0, x, in, {}}); return in; }
  double cb_rng(){ double u = fpsym_symbolic(0.15 + 0.21 * (n_rng % 4), 3000 + n_rng, 0.0, 1.0); n_rng++; ev.push_back({0, u, {}, false, {}}); return u; }
  double cb_weight(){ double w = fpsym_symbolic(0.5 + 0.125 * (n_w % 3), 4000 + n_w, 0.0, 1.0); n_w++; ev.push_back({1, w, {}, false, {}}); return w; }
  template<TypeSamplingForm F> void sample(int burn, int collect, TasmanianDREAM &state){
    auto pdf = [&](const std::vector<double> &cand, std::vector<double> &vals)->void{ cb_pdf(cand, vals); };
    auto inside = [&](const std::vector<double> &x)->bool{ return cb_inside(x); };
    auto rng = [&]()->double{ return cb_rng(); };
    auto weight = [&]()->double{ return cb_weight(); };
    if (update == 0) SampleDREAM<F>(burn, collect, pdf, inside, state, no_update, weight, rng);
    else if (update == 1) SampleDREAM<F>(burn, collect, pdf, inside, state, dist_uniform, 0.25, weight, rng);
    else if (update == 2) SampleDREAM<F>(burn, collect, pdf, inside, state, dist_gaussian, 0.25, weight, rng);
    else SampleDREAM<F>(burn, collect, pdf, inside, state, [&](std::vector<double> &x)->void{ for (auto &v : x) v += 0.125 * (2.0 * rng() - 1.0); }, weight, rng);
  }
  int iface = 0;   // 1: through the C interface tsgDreamSample() that the Python / Fortran bindings use
  void runC(int burn, int collect, TasmanianDREAM &state);
  void run(int burn, int collect, TasmanianDREAM &state){ if (iface == 1){ runC(burn, collect, state); return; } if (form == 0) sample<regform>(burn, collect, state); else sample<logform>(burn, collect, state); }
};
// the C interface takes plain function pointers: trampolines into the one world of the run
static World *GW = nullptr;
extern "C" void tsgDreamSample(int form, int num_burnup, int num_collect, void (*distribution)(int, int, const double[], double[], int*), void *state_pntr, void *domain_grid, double domain_lower[], double domain_upper[],
                               int (*domain_callback)(int, const double[]), const char *iupdate_type, double iupdate_magnitude, void (*iupdate_callback)(int, double[], int*), int dupdate_percent, double (*dupdate_callback)(),
                               const char *random_type, int random_seed, double (*random_callback)(), int *err);
static void c_pdf(int num_samples, int num_dims, const double x[], double y[], int *err){ std::vector<double> cand(x, x + (size_t) num_samples * num_dims), vals(num_samples); GW->cb_pdf(cand, vals); for (int i=0;i<num_samples;i++) y[i] = vals[i]; *err = 0; }
static int c_inside(int num_dims, const double x[]){ return GW->cb_inside(std::vector<double>(x, x + num_dims)) ? 1 : 0; }
static void c_iupdate(int num_dims, double x[], int *err){ if (GW->update == 3) for (int j=0;j<num_dims;j++) x[j] += 0.125 * (2.0 * GW->cb_rng() - 1.0); *err = 0; }
static double c_weight(){ return GW->cb_weight(); }
static double c_rng(){ return GW->cb_rng(); }
void World::runC(int burn, int collect, TasmanianDREAM &state){
  GW = this; int err = 1;
  const char *itype = update == 1 ? "uniform" : update == 2 ? "gaussian" : "null";   // "null": the callback version (update 0: a callback that leaves x alone; update 3: the user update)
  tsgDreamSample(form, burn, collect, c_pdf, &state, nullptr, nullptr, nullptr, c_inside, itype, 0.25, c_iupdate, -1, c_weight, "custom", 17, c_rng, &err);
  fpsym_check(err == 0, "tsgDreamSample() reports success");
}

int main(int argc, char **argv){
  int C = atoi(argv[1]), D = atoi(argv[2]), burn = atoi(argv[3]), collect = atoi(argv[4]), form = atoi(argv[5]), update = atoi(argv[6]), split = atoi(argv[7]); int reseed = argc > 8 ? atoi(argv[8]) : 0; int iface = argc > 9 ? atoi(argv[9]) : 0; int twice = argc > 10 ? atoi(argv[10]) : 0; int zero = argc > 11 ? atoi(argv[11]) : 0;   // zero: the density is exactly zero (a concrete 0) on half of the points - compactly supported densities
  World w; w.iface = iface; w.C = C; w.D = D; w.form = form; w.update = update; w.zero_region = zero != 0;
  std::vector<double> init(C * D); for (int i=0;i<C*D;i++) init[i] = fpsym_symbolic(-0.6 + 0.37 * i, 10 + i, -1.0, 1.0);
  TasmanianDREAM state(C, D); state.setState(init);
  // the initial state is inside the domain by assumption: its points are known to the world with that verdict; their pdf values
  // are requested by the sampler itself
  size_t h0 = state.getHistory().size();
  if (split > 0){
    w.run(burn, split, state);
    if (reseed){ // the chains are moved by the user between two runs: the probability values of the old positions must not be reused
      std::vector<double> ns(C * D); for (int i=0;i<C*D;i++) ns[i] = fpsym_symbolic(0.45 - 0.31 * i, 60 + i, -1.0, 1.0);
      if (reseed == 1) state.setState(ns); else { int q = 0; state.setState([&](double *x)->void{ for (int d=0;d<D;d++) x[d] = ns[q * D + d]; q++; }); }
      w.ev.push_back({4, 0.0, ns, false, {}});
    }
    w.run(0, collect - split, state); }
  else w.run(burn, collect, state);
  // ---------------- oracle: replay the documented Metropolis step over the logged callbacks
  std::vector<std::vector<double>> cur(C); std::vector<double> curp(C);
  for (int i=0;i<C;i++) cur[i] = std::vector<double>(init.begin() + i * D, init.begin() + (i + 1) * D);
  size_t p = 0; const std::vector<Ev> &ev = w.ev;
  fpsym_check(!ev.empty() && ev[0].kind == 3 && (int) ev[0].vals.size() == C, "initial probability values requested for all chains");
  if (ev.empty() || ev[0].kind != 3){ fpsym_finish(); return 0; }
  for (int i=0;i<C;i++){ curp[i] = ev[0].vals[i]; for (int d=0;d<D;d++) fpsym_ident(ev[0].x[i * D + d], init[i * D + d], "initial pdf evaluated at the initial state"); }
  p = 1;
  int total = std::max(burn, 0) + std::max(collect, 0);
  const std::vector<double> hist = state.getHistory(); const std::vector<double> phist = state.getHistoryPDF();
  fpsym_check(hist.size() - h0 == (size_t) collect * C * D, "history grew by exactly num_collect x chains samples");
  fpsym_check(phist.size() == (size_t) collect * C, "pdf history grew by exactly num_collect x chains values");
  size_t hpos = h0; size_t ppos = 0; bool parse_ok = true;
  for (int t = 0; t < total && parse_ok; t++){
    if (p < ev.size() && ev[p].kind == 4){
      // re-seeded state: the sampler has to evaluate the probability of the new positions before it continues
      const std::vector<double> ns = ev[p].x; p++;
      bool ok = p < ev.size() && ev[p].kind == 3 && (int) ev[p].vals.size() == C;
      fpsym_check(ok, "after the state is replaced the probability values are evaluated again for all chains");
      if (!ok){ parse_ok = false; break; }
      for (int i=0;i<C;i++){ cur[i] = std::vector<double>(ns.begin() + i * D, ns.begin() + (i + 1) * D); curp[i] = ev[p].vals[i]; for (int d=0;d<D;d++) fpsym_ident(ev[p].x[i * D + d], ns[i * D + d], "pdf re-evaluated at the re-seeded state"); }
      p++;
    }
    std::vector<std::vector<double>> prop(C); std::vector<bool> valid(C);
    for (int i=0;i<C && parse_ok;i++){
      // chain i: two index draws, one differential weight, optional update draws, one domain test
      std::vector<double> draws; double wgt = 0; bool gotw = false;
      while (p < ev.size() && ev[p].kind != 2){ if (ev[p].kind == 0) draws.push_back(ev[p].v); else if (ev[p].kind == 1){ wgt = ev[p].v; gotw = true; } else { parse_ok = false; break; } p++; }
      if (!parse_ok || p >= ev.size() || draws.size() < 2 || !gotw){ parse_ok = false; break; }
      prop[i] = ev[p].x; valid[i] = ev[p].in; p++;
      size_t j = (size_t) (draws[0] * (double) C), k = (size_t) (draws[1] * (double) C);
      if (j >= (size_t) C) j = C - 1; if (k >= (size_t) C) k = C - 1;
      if (update == 0 || update == 3){
        for (int d=0;d<D;d++){
          double expect = cur[i][d] + wgt * (cur[k][d] - cur[j][d]);
          if (update == 3) expect += 0.125 * (2.0 * draws[2 + d] - 1.0);
          fpsym_eq(prop[i][d], expect, 10.0, "proposal = s_i + w (s_k - s_j) (+ user update) with chain indexes in range");
        }
      }
    }
    if (!parse_ok) break;
    int nvalid = 0; for (int i=0;i<C;i++) if (valid[i]) nvalid++;
    std::vector<double> newv;
    if (nvalid > 0){
      if (p >= ev.size() || ev[p].kind != 3 || (int) ev[p].vals.size() != nvalid){ parse_ok = false; break; }
      newv = ev[p].vals;
      int q = 0; for (int i=0;i<C;i++) if (valid[i]){ for (int d=0;d<D;d++) fpsym_ident(ev[p].x[q * D + d], prop[i][d], "pdf is evaluated exactly at the proposals inside the domain"); q++; }
      p++;
    }
    int q = 0;
    for (int i=0;i<C;i++){
      bool keep = false; double pn = 0;
      if (valid[i]){
        pn = newv[q++];
        if (pn > curp[i]) keep = true;
        else {
          if (p >= ev.size() || ev[p].kind != 0){ parse_ok = false; break; }
          double u = ev[p].v; p++;
          keep = form == 0 ? (pn / curp[i] >= u) : (pn - curp[i] >= std::log(u));
        }
      }
      if (keep){ cur[i] = prop[i]; curp[i] = pn; }
    }
    if (!parse_ok) break;
    if (t >= burn){
      for (int i=0;i<C;i++){
        for (int d=0;d<D;d++) fpsym_ident(hist[hpos + i * D + d], cur[i][d], "recorded sample is the proposal iff inside and accepted by the Metropolis test, else the old state");
        fpsym_ident(phist[ppos + i], curp[i], "recorded probability is the value returned for the recorded sample");
      }
      hpos += (size_t) C * D; ppos += C;
    }
  }
  fpsym_check(parse_ok && p == ev.size(), "callback protocol: per chain two index draws, weight, update, domain test; one batch evaluation; acceptance draws");
  std::vector<double> fin = state.getChainState();
  if (parse_ok) for (int i=0;i<C;i++) for (int d=0;d<D;d++) fpsym_ident(fin[i * D + d], cur[i][d], "final chain state follows the Metropolis rule");
  // every recorded sample satisfied the domain test (or is the initial state)
  // (cur[i] is always the initial point or a proposal with a true verdict: follows from the ident obligations above and valid[i])
  if (twice && !reseed){
    // the result depends only on (state, random stream, parameters): a second experiment in the same process, fed the same symbols (same ids in the same
    // order) in ONE run of the combined length, ends in the same state with the same history - nothing may leak from the first experiment
    World w2; w2.iface = iface; w2.C = C; w2.D = D; w2.form = form; w2.update = update; w2.ids = w.ids; w2.zero_region = zero != 0;
    TasmanianDREAM state2(C, D); state2.setState(init);
    w2.run(burn, collect, state2);
    std::vector<double> fin2 = state2.getChainState();
    for (int i=0;i<C*D;i++) fpsym_ident(fin2[i], fin[i], "a second experiment with the same stream in the same process ends in the same chain state (and one run of the combined length equals the split runs)");
    const std::vector<double> &ha = state.getHistory(), &hb = state2.getHistory();
    fpsym_check(ha.size() == hb.size() && w2.n_rng == w.n_rng && w2.n_w == w.n_w, "a second experiment with the same stream records as many samples and consumes as many random numbers and weights");
    if (ha.size() == hb.size()) for (size_t i=0;i<ha.size();i++) fpsym_ident(hb[i], ha[i], "a second experiment with the same stream records the same samples");
  }
  if (total > 0) fpsym_nonconst(fin[0], "witness: chain state depends on the inputs");
  fpsym_finish(); return 0;
}
