// C19: GradientDescent returns its best accepted iterate within the iteration cap.
// args: variant(0 adaptive, 1 adaptive+symbolic projection, 2 constant step) dims maxcap tolmode(0: tol=0, 1: symbolic tol) [pset: stepsize parameter triple 0..3]
#include "TasmanianOptimization.hpp"
#include "fpsym.h"
using namespace TasOptimization;

struct Event { int kind; std::vector<double> x; double f; }; // kind 0 = objective, 1 = gradient, 2 = projection output

static void run_adaptive(int variant, int dims, int cap, double tol, double s0, double inc, double dec,
                         const std::vector<double> &start, std::vector<Event> &ev, std::vector<double> &xret, int &performed, double &stepret){
  int nf = 0, ng = 0, np = 0;
  auto func = [&](const std::vector<double> &x)->double{ double v = fpsym_symbolic(1.0 - 0.25 * nf, 100 + nf, -10.0, 10.0); nf++; ev.push_back({0, x, v}); return v; };
  auto grad = [&](const std::vector<double> &x, std::vector<double> &g)->void{ for (int j=0;j<dims;j++) g[j] = fpsym_symbolic(0.5 + 0.125 * ((ng + j) % 3), 200 + ng * dims + j, -4.0, 4.0); ng++; ev.push_back({1, x, 0.0}); };
  auto proj = [&](const std::vector<double> &x, std::vector<double> &y)->void{ for (int j=0;j<dims;j++) y[j] = fpsym_symbolic(0.25 * (np % 4) - 0.125 * j, 400 + np * dims + j, -3.0, 3.0); np++; ev.push_back({2, y, 0.0}); };
  GradientDescentState state(start, s0);
  OptimizationStatus st = (variant == 1) ? GradientDescent(func, grad, proj, inc, dec, cap, tol, state)
                                         : GradientDescent(func, grad, inc, dec, cap, tol, state);
  xret = state.getX(); performed = st.performed_iterations; stepret = state.getAdaptiveStepsize();
}

int main(int argc, char **argv){
  int variant = atoi(argv[1]), dims = atoi(argv[2]), maxcap = atoi(argv[3]), tolmode = atoi(argv[4]); int pset = argc > 5 ? atoi(argv[5]) : 0;   // pset: (initial step, increase, decrease) triple
  int cap = fpsym_choice(1, maxcap + 1, maxcap);
  double tol = tolmode ? fpsym_symbolic(0.01, 2, 0.0, 2.0) : 0.0;
  std::vector<double> start(dims); for (int j=0;j<dims;j++) start[j] = fpsym_symbolic(1.0 + 0.5 * j, 10 + j, -2.0, 2.0);
  fpsym_note("cap", cap); fpsym_note("dims", dims);
  if (variant == 2){
    // constant step: performs exactly min(cap, first step reaching the tolerance) steps
    double step = 0.25; int ng = 0; std::vector<std::vector<double>> gs;
    auto grad = [&](const std::vector<double> &x, std::vector<double> &g)->void{ for (int j=0;j<dims;j++) g[j] = fpsym_symbolic(0.5 - 0.2 * ng, 200 + ng * dims + j, -4.0, 4.0); ng++; gs.push_back(g); };
    std::vector<double> x = start;
    OptimizationStatus st = GradientDescent(grad, step, cap, tol, x);
    // oracle: the harness evaluates the documented stopping rule on the same gradient symbols
    int expected = 0; std::vector<double> xe = start;
    while (expected < cap){
      for (int j=0;j<dims;j++) xe[j] -= gs[expected][j] * step;
      expected++;
      if ((int) gs.size() <= expected) break;
      double r = 0; for (int j=0;j<dims;j++) r += gs[expected][j] * gs[expected][j];
      if (r == tol * tol) fpsym_note("residual_equals_tolerance", 1);   // a class of its own: the documented rule stops when the residual is <= the tolerance, the tie included
      if (!(std::sqrt(r) > tol)) break;
    }
    fpsym_check(st.performed_iterations <= cap, "constant step: performed_iterations <= cap");
    fpsym_check(st.performed_iterations == expected, "constant step: performed == min(cap, first step reaching tolerance)");
    fpsym_check(ng == st.performed_iterations + 1, "constant step: one gradient call per step plus the initial one");
    for (int j=0;j<dims;j++) fpsym_eq(x[j], xe[j], 20.0, "constant step: final point is start minus step times the gradients used");
    if (cap > 0 && dims > 0) fpsym_nonconst(x[0], "witness: final point depends on the inputs");
    fpsym_finish(); return 0;
  }
  const double PS[4][3] = {{0.5, 2.0, 2.0}, {1.0, 3.0, 4.0}, {0.25, 1.5, 2.5}, {2.0, 1.25, 8.0}};
  double s0 = PS[pset % 4][0], inc = PS[pset % 4][1], dec = PS[pset % 4][2];
  std::vector<Event> ev; std::vector<double> xret; int performed = 0; double stepret;
  run_adaptive(variant, dims, cap, tol, s0, inc, dec, start, ev, xret, performed, stepret);
  // trials = objective calls after the first one
  int trials = -1; for (auto &e : ev) if (e.kind == 0) trials++;
  fpsym_check(performed <= cap, "performed_iterations <= max_iterations");
  fpsym_check(performed == trials, "performed_iterations == number of line-search trials");
  // last accepted point: the argument of the last gradient evaluation (the gradient is evaluated at the start and after each
  // accepted trial); its objective value is the value returned by the objective call right before that gradient call
  int last_g = -1; for (size_t k=0;k<ev.size();k++) if (ev[k].kind == 1) last_g = (int) k;
  fpsym_check(last_g >= 0, "gradient evaluated at least at the start");
  const std::vector<double> &best = ev[last_g].x;
  for (int j=0;j<dims;j++) fpsym_ident(xret[j], best[j], "returned x is the last point that passed the descent test");
  // f-values of the accepted chain are non-increasing (identity projection: consequence of the descent inequality)
  double fstart = ev[0].f, fbest = fstart; int fidx = -1;
  for (int k=0;k<last_g;k++) if (ev[k].kind == 0) { fbest = ev[k].f; fidx = k; }
  if (variant == 0) fpsym_le(fbest, fstart, 20.0, "objective at the returned point <= objective at the start");
  // returned x is the start or an output of the projection
  if (variant == 1){
    bool found = false;
    for (auto &e : ev) if (e.kind == 2){ bool same = true; for (int j=0;j<dims;j++) if (fpsym_key(e.x[j]) != fpsym_key(xret[j])) same = false; if (same) found = true; }
    bool is_start = true; for (int j=0;j<dims;j++) if (fpsym_key(xret[j]) != fpsym_key(start[j])) is_start = false;
    // concrete comparison on the representative is backed by the ident obligations above (best is a projection output or the start)
    fpsym_check(found || is_start, "returned x is the start or a value returned by the projection");
  }
  // smaller caps on the same callback graph: the result with cap c is no worse than with any c' < c
  for (int c2 = 0; c2 < cap; c2++){
    std::vector<Event> ev2; std::vector<double> x2; int p2; double s2;
    run_adaptive(variant, dims, c2, tol, s0, inc, dec, start, ev2, x2, p2, s2);
    int lg2 = -1; for (size_t k=0;k<ev2.size();k++) if (ev2[k].kind == 1) lg2 = (int) k;
    double fb2 = ev2[0].f; for (int k=0;k<lg2;k++) if (ev2[k].kind == 0) fb2 = ev2[k].f;
    // what the call with the smaller cap actually returned must be the accepted point of its own run
    for (int j=0;j<dims;j++) fpsym_ident(x2[j], ev2[lg2].x[j], "smaller cap: returned x is the last accepted point");
    if (variant == 0) fpsym_le(fbest, fb2, 20.0, "objective with cap c <= objective with smaller cap c'");
    fpsym_check(p2 <= c2, "smaller cap: performed_iterations <= cap");
  }
  if (cap > 0 && dims > 0) fpsym_nonconst(xret[0], "witness: returned x depends on the inputs");
  fpsym_output(xret[0], "x0"); fpsym_output((double) performed, "performed");
  fpsym_finish(); return 0;
}
