// C01: the interpolant reproduces the loaded model values at every loaded point, for all value arrays.
// args: <grid spec> <script> [param]
// scripts: load | reload | refine (param: classic|parents|direction|fds|stable|aniso|surplus) | construct (param: batch size) | construct1 | construct1r (one at a time, last candidate first)
//          reupdate: load, updateGrid with the anisotropic weights reversed (the new selection is not a superset of the old one), load, updateGrid(depth+1, original weights), load
//          sym (param: number of steps): after the load, every step is chosen by the solver (see solverChosenHistory in tgrid.hpp); reproduction is checked after each step
//          mixed (param: batch size): load, refinement left pending, construction, finish, load whatever is needed, refine, load
#include "tgrid.hpp"
#include <algorithm>

static bool skip_witness = false;   // solver-chosen histories may zero values (merge): the witness belongs to the listed scripts
static void check_reproduction(const TasmanianSparseGrid &grid, SymModel &model, const char *stage){
  int d = grid.getNumDimensions(), n = grid.getNumLoaded(), outs = grid.getNumOutputs();
  fpsym_note("loaded", n);
  if (n == 0 || outs == 0) return;
  if (grid.isLocalPolynomial() && !lpParentComplete(grid)){ fpsym_note("incomplete_hierarchy_skipped", 1); return; }
  std::vector<double> pts = grid.getLoadedPoints();
  double scale = (1.0 + n) * g_vscale;
  std::vector<double> yb; grid.evaluateBatch(pts, yb);
  std::string l1 = std::string(stage) + ": evaluate(x_i) == y_i", l2 = std::string(stage) + ": evaluateBatch row i == y_i", l3 = std::string(stage) + ": evaluateFast(x_i) == y_i";
  for (int i=0;i<n;i++){
    std::vector<double> x = pointAt(pts, d, i), y;
    const std::vector<double> &want = model.at(x);
    grid.evaluate(x, y);
    std::vector<double> yf(outs); grid.evaluateFast(x.data(), yf.data());
    for (int k=0;k<outs;k++){
      fpsym_eq(y[k], want[k], scale, l1.c_str());
      fpsym_eq(yb[(size_t) i * outs + k], want[k], scale, l2.c_str());
      fpsym_eq(yf[k], want[k], scale, l3.c_str());
    }
  }
  if (!model.zeroed && !skip_witness) fpsym_nonconst(yb[0], "witness: surrogate value at a loaded point depends on the supplied values");   // (after a merge all values are the constant zero)
}

int main(int argc, char **argv){
  GridSpec g = parseSpec(argv[1]); std::string script = argv[2]; std::string param = (argc > 3 && strncmp(argv[3], "vs=", 3) != 0) ? argv[3] : ""; parseVScale(argc, argv);
  TasmanianSparseGrid grid; makeGrid(grid, g);
  SymModel model(g.outputs);
  int d = g.dims;
  auto refine_once = [&](double tol, int round)->void{
    if (grid.isLocalPolynomial() || grid.isWavelet()) grid.setSurplusRefinement(tol, refine_classic, -1, g.ll);
    else if (grid.isFourier() || round % 2 == 0 || !OneDimensionalMeta::isSequence(grid.getRule())) grid.setAnisotropicRefinement(type_iptotal, 1 + round, 0, g.ll);
    else grid.setSurplusRefinement(tol, 0, g.ll); };
  if (script == "load" || script == "reload" || script == "refine" || script == "mixed" || script == "reupdate" || script == "sym"){
    grid.loadNeededValues(model.values(grid.getNeededPoints(), d));
    check_reproduction(grid, model, "after load");
  }
  if (script == "reload"){
    model.renew(); model.next_id = 5000;
    grid.loadNeededValues(model.values(grid.getLoadedPoints(), d));
    check_reproduction(grid, model, "after overwriting reload");
  }
  if (script == "refine"){
    for (int round = 0; round < 2; round++){
      double tol = fpsym_symbolic(round == 0 ? 0.05 : 0.2, 5 + round, 0.0, 0.6);
      if (grid.isLocalPolynomial() || grid.isWavelet()){
        grid.setSurplusRefinement(tol, IO::getTypeRefinementString(param), -1, g.ll);
      } else if (param == "aniso"){
        grid.setAnisotropicRefinement(type_iptotal, 1 + round, 0, g.ll);
      } else {
        grid.setSurplusRefinement(tol, 0, g.ll);
      }
      fpsym_note("needed_after_refine", grid.getNumNeeded());
      if (grid.getNumNeeded() == 0) break;
      grid.loadNeededValues(model.values(grid.getNeededPoints(), d));
      check_reproduction(grid, model, round == 0 ? "after refine+load" : "after second refine+load");
    }
  }
  if (script == "reupdate" && !(grid.isLocalPolynomial() || grid.isWavelet())){
    std::vector<int> w = g.aw; if (w.empty()){ for (int j=0;j<d;j++) w.push_back(1 + (j % 2)); if (g.type.find("curved") != std::string::npos) for (int j=0;j<d;j++) w.push_back(0); }
    std::vector<int> rev = w; std::reverse(rev.begin(), rev.begin() + d);
    for (int round=0; round<2; round++){
      grid.updateGrid(g.depth + round, IO::getDepthTypeString(g.type), round == 0 ? rev : w, g.ll);
      fpsym_note(round == 0 ? "needed_after_reversed_update" : "needed_after_second_update", grid.getNumNeeded());
      if (grid.getNumNeeded() > 0) grid.loadNeededValues(model.values(grid.getNeededPoints(), d));
      check_reproduction(grid, model, round == 0 ? "after an update with reversed anisotropic weights + load" : "after a second update (depth+1, original weights) + load");
    }
  }
  if (script == "sym"){
    skip_witness = true;
    int nsteps = atoi(param.c_str()); if (nsteps <= 0) nsteps = 3;
    for (int i=0;i<nsteps;i++){ solverChosenHistory(grid, g, model, 1, 70 + i); check_reproduction(grid, model, ("after solver-chosen step " + std::to_string(i)).c_str()); }
    if (grid.isUsingConstruction()){ grid.finishConstruction(); check_reproduction(grid, model, "after finishConstruction"); }
    if (grid.getNumNeeded() > 0){ grid.loadNeededValues(model.values(grid.getNeededPoints(), d)); check_reproduction(grid, model, "after the final load of the needed points"); }
  }
  if (script == "mixed"){ refine_once(fpsym_symbolic(0.05, 5, 0.0, 0.6), 0); fpsym_note("pending_before_construction", grid.getNumNeeded()); }   // left pending
  if (script == "construct" || script == "construct1" || script == "construct1r" || script == "mixed"){
    int batch = (script == "construct1" || script == "construct1r") ? 1 : atoi(param.c_str()); if (batch <= 0) batch = 1000000;
    int budget = script == "mixed" ? 2 * batch : 3 * grid.getNumPoints() / 2 + 2, done = 0;
    grid.beginConstruction();
    while (done < budget){
      std::vector<double> cand;
      if (grid.isLocalPolynomial() || grid.isWavelet()) cand = grid.getCandidateConstructionPoints(0.0, script == "construct1r" ? refine_classic : refine_fds, -1, g.ll);   // classic: a child is proposed as soon as ONE parent is loaded, its other parents may arrive later
      else cand = grid.getCandidateConstructionPoints(type_iptotal, 0, g.ll);
      int nc = (int) cand.size() / d; if (nc == 0) break;
      int take = std::min(std::min(batch, nc), budget - done);
      std::vector<double> x(cand.begin(), cand.begin() + (size_t) take * d);
      if (script == "construct1r") x = std::vector<double>(cand.end() - d, cand.end());   // the LAST candidate, alone: deep points arrive before some of their other parents
      grid.loadConstructedPoints(x, model.values(x, d));
      done += take;
      if (grid.getNumLoaded() > 0 && ((script == "construct1" || script == "construct1r") ? (done % 4 == 0) : true)) check_reproduction(grid, model, "during construction");
    }
    grid.finishConstruction();
    check_reproduction(grid, model, "after finishConstruction");
  }
  if (script == "mixed"){
    fpsym_note("needed_after_construction", grid.getNumNeeded());
    if (grid.getNumNeeded() > 0){ grid.loadNeededValues(model.values(grid.getNeededPoints(), d)); check_reproduction(grid, model, "construction, then load of the needed points"); }
    refine_once(fpsym_symbolic(0.1, 6, 0.0, 0.6), 1);
    if (grid.getNumNeeded() > 0){ grid.loadNeededValues(model.values(grid.getNeededPoints(), d)); check_reproduction(grid, model, "pending refinement, construction, refine+load"); }
  }
  fpsym_finish(); return 0;
}
