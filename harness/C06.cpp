// C06: write() then read() restores the complete observable state of a grid (binary and ASCII format; the shadows of the doubles travel on the byte / token tape of engine B).
// args: <grid spec> <history> <binary 1/0>
//  history: 0 fresh | 1 loaded | 2 loaded + pending refinement | 3 active construction (loaded + parked samples) | 4 empty grid | 5 loaded + conformal map | 6 merged refinement + coefficient overwrite
//           8 loaded + pending updateGrid(depth+1) (the numbers of active tensors before and after differ)
//           9 solver-chosen: three steps, each one of {nothing, load / overwrite, pending refinement, merge, update, begin construction + two samples, finish construction}
//           7 active construction with samples delivered deepest-first (tensors completed before their lower neighbours: complete-but-blocked data)
#include "tgrid.hpp"
#include <sstream>
#include <algorithm>

static void same(const Obs &r, const Obs &o, const char *stage){
  std::string s(stage);
  fpsym_check(r.ints == o.ints, (s + ": type, meta-data, counts, limits and flags restored").c_str());
  fpsym_check(r.coords == o.coords, (s + ": loaded and needed points (in order), transform and weights restored").c_str());
  fpsym_check(r.outdep.size() == o.outdep.size(), (s + ": number of values / coefficients restored").c_str());
  if (r.outdep.size() == o.outdep.size()) for (size_t i=0;i<r.outdep.size();i++) fpsym_ident(r.outdep[i], o.outdep[i], (s + ": values, coefficients, surrogate and integrals restored (same expression)").c_str());
  // the numbers themselves travel exactly in both formats (binary: raw bytes; ASCII: 17 significant digits): on the explored run the
  // restored observables are bit-for-bit those of the source (an expression identity alone would not see a loss of digits)
  if (r.outdep.size() == o.outdep.size()){ size_t bad = 0; for (size_t i=0;i<r.outdep.size();i++){ double a = fpsym_concrete(r.outdep[i]), b = fpsym_concrete(o.outdep[i]); if (!(a == b) && !(a != a && b != b)) bad++; }
    fpsym_check(bad == 0, (s + ": values, coefficients, surrogate and integrals restored bit-for-bit on this run").c_str()); }
}

int main(int argc, char **argv){
  GridSpec g = parseSpec(argv[1]); int history = atoi(argv[2]); bool binary = atoi(argv[3]) != 0;
  int d = g.dims, outs = g.outputs;
  if (outs == 0 && history != 4) history = 0;   // a grid without outputs has no values to load or refine on
  TasmanianSparseGrid grid;
  SymModel model(outs, 1000, -1.0, 1.0, g.family != "wavelet");   // ASCII: the shadows travel on the token tape of engine B (operator<< / operator>> of double)
  std::vector<double> probe; for (int p=0;p<2;p++) for (int j=0;j<d;j++){ double lo = g.transform ? g.ta[j] : (g.family == "fourier" ? 0.0 : -1.0), hi = g.transform ? g.tb[j] : 1.0; probe.push_back(lo + (0.23 + 0.41 * p + 0.06 * j) * (hi - lo)); }
  if (history != 4) makeGrid(grid, g);
  bool local = grid.isLocalPolynomial() || grid.isWavelet();
  bool nested = history != 4 && !OneDimensionalMeta::isNonNested(grid.getRule());
  if (history == 8 && !local && outs > 0){ grid.loadNeededValues(model.values(grid.getNeededPoints(), d)); grid.updateGrid(g.depth + 1, IO::getDepthTypeString(g.type), g.aw, g.ll); }
  if (history == 1 || history == 2 || history == 5 || history == 6) grid.loadNeededValues(model.values(grid.getNeededPoints(), d));
  if ((history == 2 || history == 6) && nested){ if (local) grid.setSurplusRefinement(0.0, refine_classic, -1, g.ll); else grid.setAnisotropicRefinement(type_iptotal, 2, 0, g.ll); }
  if (history == 6 && nested){ grid.mergeRefinement(); int nc = (grid.isFourier() ? 2 : 1) * grid.getNumLoaded() * outs; std::vector<double> h(nc); for (int i=0;i<nc;i++) h[i] = model.symbolic ? fpsym_symbolic(0.2 - 0.05 * (i % 7), 6000 + i, -1.0, 1.0) : 0.2 - 0.05 * (i % 7); grid.setHierarchicalCoefficients(h); }
  if (history == 3 && nested && outs > 0){
    grid.beginConstruction();
    for (int round=0; round<2; round++){
      std::vector<double> cand = local ? grid.getCandidateConstructionPoints(0.0, refine_fds, -1, g.ll) : grid.getCandidateConstructionPoints(type_iptotal, 0, g.ll);
      size_t nc = cand.size() / d; size_t take = round == 0 ? nc : std::min<size_t>(nc, 1); if (!take) break;
      size_t off = (round == 1 && nc > 1) ? d : 0; std::vector<double> x(cand.begin() + off, cand.begin() + off + take * d);
      grid.loadConstructedPoints(x, model.values(x, d));
    }
  }
  if (history == 7 && nested && outs > 0){
    grid.beginConstruction();
    std::vector<double> cand = local ? grid.getCandidateConstructionPoints(0.0, refine_fds, -1, g.ll) : grid.getCandidateConstructionPoints(type_iptotal, 0, g.ll);
    size_t nc = cand.size() / d;
    if (nc > 0){
      // the first candidate (root), then the last third of the list one by one from the end: the deepest tensors fill up while lower ones are still empty
      std::vector<double> x(cand.begin(), cand.begin() + d); grid.loadConstructedPoints(x, model.values(x, d));
      size_t take = std::max<size_t>(2, nc / 3);
      for (size_t i=0;i<take && i + 1 < nc;i++){ std::vector<double> y(cand.begin() + (nc - 1 - i) * d, cand.begin() + (nc - i) * d); grid.loadConstructedPoints(y, model.values(y, d)); }
    }
  }
  if (history == 9 && outs > 0) solverChosenHistory(grid, g, model, 3, 70);
  if (history == 5 && g.family != "fourier" && g.rule.find("hermite") == std::string::npos && g.rule.find("laguerre") == std::string::npos) grid.setConformalTransformASIN(std::vector<int>(d, 4));
  // ---- round trip
  std::stringstream s1(std::ios::in | std::ios::out | std::ios::binary);
  grid.write(s1, binary);
  std::string bytes1 = s1.str();
  TasmanianSparseGrid back; back.read(s1, binary);
  fpsym_note("bytes", (long) bytes1.size());
  { char extra; s1.read(&extra, 1); fpsym_check(s1.eof() || !binary, "read() consumes exactly the bytes written"); }
  Obs o = observe(grid, probe), r = observe(back, probe);
  same(r, o, "restored grid");
  if (!grid.empty() && grid.isSetConformalTransformASIN()) fpsym_check(back.isSetConformalTransformASIN() && back.getConformalTransformASIN() == grid.getConformalTransformASIN(), "conformal transform restored");
  std::stringstream s2(std::ios::in | std::ios::out | std::ios::binary);
  back.write(s2, binary);
  fpsym_check(s2.str() == bytes1, "writing the restored grid reproduces the original bytes");
  // second generation carries the same expressions (not only the same bytes on this run)
  TasmanianSparseGrid back2; back2.read(s2, binary);
  same(observe(back2, probe), o, "second generation");
  // ---- every subsequent operation behaves as on the original
  if (!grid.empty() && outs > 0){
    SymModel next(outs, 7000, -1.0, 1.0, model.symbolic);
    auto step = [&](TasmanianSparseGrid &gr){
      if (gr.isUsingConstruction()){
        std::vector<double> cand = local ? gr.getCandidateConstructionPoints(0.0, refine_classic, -1, g.ll) : gr.getCandidateConstructionPoints(type_level, 0, g.ll);
        size_t take = std::min<size_t>(cand.size() / d, history == 7 ? 8 : 3); std::vector<double> x(cand.begin(), cand.begin() + take * d);
        if (take) gr.loadConstructedPoints(x, next.values(x, d));
        gr.finishConstruction();
      } else if (gr.getNumNeeded() > 0) gr.loadNeededValues(next.values(gr.getNeededPoints(), d));
      if (gr.getNumLoaded() > 0 && nested){ if (local) gr.setSurplusRefinement(0.0, refine_classic, -1, std::vector<int>()); else gr.setAnisotropicRefinement(type_iptotal, 1, 0, std::vector<int>()); }
    };
    step(grid); step(back);
    same(observe(back, probe), observe(grid, probe), "after the same further operations on original and restored grid");
  }
  if (model.symbolic && !r.outdep.empty() && history != 9) fpsym_nonconst(r.outdep[0], "witness: the values of the RESTORED grid are symbolic (the expressions travelled through the byte stream)");
  fpsym_finish(); return 0;
}
