// C14: misuse is reported by the documented exceptions and never corrupts a grid.
// args: <grid spec> <state>   state: 0 fresh (no values) | 1 loaded | 2 loaded + pending refinement | 3 active construction | 4 empty grid
// Every misuse of the table below is issued in that state; each must raise std::invalid_argument or std::runtime_error and leave
// every observable (points, value symbols, coefficients, surrogate expressions, limits, transform, flags) exactly as before.
#include "TasmanianAddons.hpp"
#include "tgrid.hpp"
#include <functional>
#include <sstream>

static TasmanianSparseGrid *G; static std::vector<double> probe; static int fails_other = 0;
static int D, OUTS;

static std::function<void()> rebuild;
static void misuse(const char *name, std::function<void()> call, bool applies = true, bool may_empty = false){
  if (!applies) return;
  Obs before = observe(*G, probe);
  int outcome = 0; // 0 no exception, 1 invalid_argument, 2 runtime_error, 3 other std::exception, 4 unknown
  try { call(); }
  catch (std::invalid_argument &){ outcome = 1; }
  catch (std::runtime_error &){ outcome = 2; }
  catch (std::exception &){ outcome = 3; }
  catch (...){ outcome = 4; }
  std::string n(name);
  fpsym_check(outcome != 0, (n + ": the documented exception is raised").c_str());
  fpsym_check(outcome == 0 || outcome == 1 || outcome == 2, (n + ": the exception is std::invalid_argument or std::runtime_error").c_str());
  Obs after = observe(*G, probe);
  if (may_empty && G->empty() && !(before.ints.size() == 1)){
    // a failed make / read may leave the object empty (and only empty); restore the state for the remaining table
    fpsym_note("emptied_by_failed_make_or_read", 1);
    fpsym_check(G->getNumPoints() == 0 && G->getNumDimensions() == 0 && G->getNumOutputs() == 0, (n + ": a grid emptied by a failed make/read reports no points, dimensions or outputs").c_str());
    fpsym_check(!G->isUsingConstruction(), (n + ": a grid emptied by a failed read is not in construction mode").c_str());
    { // the emptied object is fully usable: harmless calls do not crash
      bool ok = true; try { G->finishConstruction(); std::stringstream o; G->write(o, true); TasmanianSparseGrid c2(*G); ok = c2.empty(); } catch (std::runtime_error &){ } catch (std::invalid_argument &){ } catch (...){ ok = false; }
      fpsym_check(ok, (n + ": the emptied object can be finished, written and copied").c_str()); }
    rebuild(); return;
  }
  fpsym_check(after.ints == before.ints, (n + ": structure, counts, limits and flags unchanged after the exception").c_str());
  fpsym_check(after.coords == before.coords, (n + ": points, transform and weights unchanged after the exception").c_str());
  fpsym_check(after.outdep.size() == before.outdep.size(), (n + ": number of values unchanged after the exception").c_str());
  if (after.outdep.size() == before.outdep.size()) for (size_t i=0;i<after.outdep.size();i++) fpsym_ident(after.outdep[i], before.outdep[i], (n + ": values, coefficients and surrogate unchanged after the exception").c_str());
}

int main(int argc, char **argv){
  GridSpec g = parseSpec(argv[1]); int state = atoi(argv[2]);
  D = g.dims; OUTS = g.outputs; int d = D;
  if (OUTS == 0 && state != 4) state = 0;   // a grid without outputs cannot hold values: only the fresh state exists
  TasmanianSparseGrid grid; G = &grid;
  SymModel model(OUTS, 1000, -1.0, 1.0, g.family != "wavelet");
  for (int p=0;p<2;p++) for (int j=0;j<d;j++){ double lo = g.transform ? g.ta[j] : (g.family == "fourier" ? 0.0 : -1.0), hi = g.transform ? g.tb[j] : 1.0; probe.push_back(lo + (0.23 + 0.41 * p + 0.06 * j) * (hi - lo)); }
  bool local = false, nested = false;
  rebuild = [&]{
    if (state != 4) makeGrid(grid, g);
    local = grid.isLocalPolynomial() || grid.isWavelet();
    nested = state != 4 && !OneDimensionalMeta::isNonNested(grid.getRule());
    if (state == 1 || state == 2) grid.loadNeededValues(model.values(grid.getNeededPoints(), d));
    if (state == 2 && nested){ if (local) grid.setSurplusRefinement(0.0, refine_classic, -1, g.ll); else grid.setAnisotropicRefinement(type_iptotal, 2, 0, g.ll); }
    if (state == 3 && nested && OUTS > 0){
      grid.beginConstruction();
      std::vector<double> cand = local ? grid.getCandidateConstructionPoints(0.0, refine_classic, -1, g.ll) : grid.getCandidateConstructionPoints(type_level, 0, g.ll);
      size_t take = std::min<size_t>(cand.size() / d, 4); std::vector<double> x(cand.begin(), cand.begin() + take * d); if (take) grid.loadConstructedPoints(x, model.values(x, d));
    }
  };
  rebuild();
  bool constructing = grid.isUsingConstruction(); bool empty = grid.empty(); int nl = grid.getNumLoaded(), nn = grid.getNumNeeded(), np = grid.getNumPoints();
  std::vector<int> badlim(d + 1, 1), oklim(d, 3), badw(d + 1, 1), okw(d, 1);
  std::vector<double> xbad(d + 1, 0.1), xok(d, 0.1);
  // ---- make* with bad arguments (on a scratch object the result must be an unchanged/empty object; here: the same object must stay as it is)
  misuse("makeGlobalGrid(dimensions = 0)", [&]{ grid.makeGlobalGrid(0, 1, 2, type_level, rule_clenshawcurtis); }, true, true);
  misuse("makeGlobalGrid(outputs = -1)", [&]{ grid.makeGlobalGrid(2, -1, 2, type_level, rule_clenshawcurtis); }, true, true);
  misuse("makeGlobalGrid(depth = -1)", [&]{ grid.makeGlobalGrid(2, 1, -1, type_level, rule_clenshawcurtis); }, true, true);
  misuse("makeGlobalGrid(rule = localp)", [&]{ grid.makeGlobalGrid(2, 1, 2, type_level, rule_localp); }, true, true);
  misuse("makeGlobalGrid(weights of wrong size)", [&]{ grid.makeGlobalGrid(2, 1, 2, type_level, rule_clenshawcurtis, std::vector<int>{1}); }, true, true);
  misuse("makeGlobalGrid(curved weights of wrong size)", [&]{ grid.makeGlobalGrid(2, 1, 2, type_curved, rule_clenshawcurtis, std::vector<int>{1, 1}); }, true, true);
  misuse("makeGlobalGrid(limits of wrong size)", [&]{ grid.makeGlobalGrid(2, 1, 2, type_level, rule_clenshawcurtis, std::vector<int>(), 0.0, 0.0, nullptr, std::vector<int>{1, 2, 3}); }, true, true);
  misuse("makeGlobalGrid(custom rule without file)", [&]{ grid.makeGlobalGrid(2, 1, 2, type_level, rule_customtabulated); }, true, true);
  misuse("makeGlobalGrid(custom rule, missing file)", [&]{ grid.makeGlobalGrid(2, 1, 2, type_level, rule_customtabulated, std::vector<int>(), 0.0, 0.0, "/nonexistent/verif_rule_file"); }, true, true);
  misuse("makeSequenceGrid(dimensions = -2)", [&]{ grid.makeSequenceGrid(-2, 1, 2, type_level, rule_rleja); }, true, true);
  misuse("makeSequenceGrid(rule = clenshaw-curtis)", [&]{ grid.makeSequenceGrid(2, 1, 2, type_level, rule_clenshawcurtis); }, true, true);
  misuse("makeSequenceGrid(weights of wrong size)", [&]{ grid.makeSequenceGrid(2, 1, 2, type_level, rule_rleja, std::vector<int>{1, 2, 3}); }, true, true);
  misuse("makeSequenceGrid(limits of wrong size)", [&]{ grid.makeSequenceGrid(2, 1, 2, type_level, rule_rleja, std::vector<int>(), std::vector<int>{1}); }, true, true);
  misuse("makeLocalPolynomialGrid(order = -2)", [&]{ grid.makeLocalPolynomialGrid(2, 1, 2, -2, rule_localp); }, true, true);
  misuse("makeLocalPolynomialGrid(rule = leja)", [&]{ grid.makeLocalPolynomialGrid(2, 1, 2, 1, rule_leja); }, true, true);
  misuse("makeLocalPolynomialGrid(depth = -3)", [&]{ grid.makeLocalPolynomialGrid(2, 1, -3, 1, rule_localp); }, true, true);
  misuse("makeLocalPolynomialGrid(limits of wrong size)", [&]{ grid.makeLocalPolynomialGrid(2, 1, 2, 1, rule_localp, std::vector<int>{1}); }, true, true);
  misuse("makeWaveletGrid(order = 2)", [&]{ grid.makeWaveletGrid(2, 1, 2, 2); }, true, true);
  misuse("makeWaveletGrid(dimensions = 0)", [&]{ grid.makeWaveletGrid(0, 1, 2, 1); }, true, true);
  misuse("makeWaveletGrid(limits of wrong size)", [&]{ grid.makeWaveletGrid(2, 1, 2, 1, std::vector<int>{1, 1, 1}); }, true, true);
  misuse("makeFourierGrid(outputs = -1)", [&]{ grid.makeFourierGrid(2, -1, 2, type_level); }, true, true);
  misuse("makeFourierGrid(weights of wrong size)", [&]{ grid.makeFourierGrid(2, 1, 2, type_level, std::vector<int>{1}); }, true, true);
  misuse("makeFourierGrid(limits of wrong size)", [&]{ grid.makeFourierGrid(2, 1, 2, type_level, std::vector<int>(), std::vector<int>{1}); }, true, true);
  // ---- read of something that is not a grid
  misuse("read(binary stream with wrong header)", [&]{ std::stringstream ss(std::string("XYZW\x01\x02\x03\x04garbage-garbage", 24)); grid.read(ss, mode_binary); }, true, true);
  misuse("read(binary stream with future version)", [&]{ std::string h("TSG9"); h += std::string(32, '\x07'); std::stringstream ss(h); grid.read(ss, mode_binary); }, true, true);
  misuse("read(ascii stream that is not a grid)", [&]{ std::stringstream ss("HELLO WORLD\n1 2 3\n"); grid.read(ss, mode_ascii); }, true, true);
  misuse("read(ascii stream with wrong version line)", [&]{ std::stringstream ss("TASMANIAN SG 99.9\nWITH\n"); grid.read(ss, mode_ascii); }, true, true);
  // future file formats, ordered lexicographically as (major, minor): a later major with any minor, the same major with a later minor; the body is a complete valid image where one exists
  { std::string body = "WITHCONFORMAL\nempty\nTASMANIAN SG end\n";
    if (!grid.empty()){ std::stringstream img; grid.write(img, false); std::string b = img.str(); size_t nl = b.find('\n'); if (nl != std::string::npos) body = b.substr(nl + 1); }
    int M = TasmanianSparseGrid::getVersionMajor(), m = TasmanianSparseGrid::getVersionMinor();
    const int fut[7][2] = {{M + 1, 0}, {M + 1, m}, {M + 1, m + 1}, {M + 2, m > 0 ? m - 1 : 0}, {M, m + 1}, {M, m + 10}, {M + 10, m}};
    for (auto &v : fut){ std::string nm = "read(ascii image with future version major" + std::string(v[0] > M ? "+" : "=") + " minor" + (v[1] > m ? "+" : v[1] == m ? "=" : "-") + ")";
      std::string text = "TASMANIAN SG " + std::to_string(v[0]) + "." + std::to_string(v[1]) + "\n" + body;
      misuse(nm.c_str(), [&]{ std::stringstream ss(text); grid.read(ss, mode_ascii); }, true, true); }
    misuse("read(ascii header whose version number does not fit an int)", [&]{ std::stringstream ss("TASMANIAN SG 99999999999.0\n" + body); grid.read(ss, mode_ascii); }, true, true);
    misuse("read(ascii header whose minor version does not fit an int)", [&]{ std::stringstream ss("TASMANIAN SG 7.99999999999\n" + body); grid.read(ss, mode_ascii); }, true, true);
    misuse("read(ascii header whose version is not a number)", [&]{ std::stringstream ss("TASMANIAN SG x.y\n" + body); grid.read(ss, mode_ascii); }, true, true);
    misuse("read(ascii image of a version before 3.0)", [&]{ std::stringstream ss("TASMANIAN SG 2.9\n" + body); grid.read(ss, mode_ascii); }, true, true);
    misuse("read(binary stream with the next format version)", [&]{ std::string h("TSG6"); h += std::string(32, '\x01'); std::stringstream ss(h); grid.read(ss, mode_binary); }, true, true);
  }
  misuse("read(ascii stream with unknown grid type)", [&]{ std::stringstream ss("TASMANIAN SG 8.0\nWITHCONFORMAL\nsuperlocal\n"); grid.read(ss, mode_ascii); }, true, true);
  misuse("read(missing file)", [&]{ grid.read("/nonexistent/verif_grid_file"); }, true, true);
  // damaged images of THIS grid (its current state, including pending refinement / construction data): truncated at several places, end marker changed
  if (!grid.empty()) for (int binary = 1; binary >= 0; binary--){   // (the cut images live in a fresh stream: their numbers are concrete on the explored run)
    std::stringstream img; grid.write(img, binary != 0); std::string bytes = img.str(); size_t L = bytes.size();
    for (size_t cut : {L / 4, L / 2, (3 * L) / 4, L - 9, L - 2, L - 1}){
      if (cut == 0 || cut >= L) continue;
      if (!binary && cut == L - 1) continue;   // the last byte of an ASCII image is the newline after the end marker
      std::string nm = std::string(binary ? "read(binary" : "read(ascii") + " image of this grid truncated at " + (cut == L - 1 ? "the last byte" : cut == L - 2 ? "the last two bytes" : cut == L - 9 ? "the last 9 bytes" : cut == L / 4 ? "1/4" : cut == L / 2 ? "1/2" : "3/4") + ")";
      misuse(nm.c_str(), [&]{ std::stringstream ss(bytes.substr(0, cut), std::ios::in | std::ios::binary); grid.read(ss, binary != 0); }, true, true);
    }
    if (binary){ std::string bad = bytes; bad[L - 1] = 'x'; misuse("read(binary image of this grid with a wrong end marker)", [&]{ std::stringstream ss(bad, std::ios::in | std::ios::binary); grid.read(ss, true); }, true, true); }
  }
  // ---- sizes of point / value arrays
  misuse("loadNeededValues(vector of wrong size)", [&]{ grid.loadNeededValues(std::vector<double>((size_t) std::max(nn, nl) * OUTS + 1, 0.5)); }, !empty && !constructing);
  misuse("evaluate(x of wrong size)", [&]{ std::vector<double> y; grid.evaluate(xbad, y); }, !empty && nl > 0);
  misuse("getInterpolationWeights(x of wrong size)", [&]{ grid.getInterpolationWeights(xbad); }, !empty);
  misuse("getDifferentiationWeights(x of wrong size)", [&]{ grid.getDifferentiationWeights(xbad); }, !empty);
  misuse("setHierarchicalCoefficients(vector of wrong size)", [&]{ grid.setHierarchicalCoefficients(std::vector<double>((size_t) np * OUTS + 3, 0.1)); }, !empty && OUTS > 0 && !constructing);
  misuse("loadConstructedPoints(y shorter than x)", [&]{ grid.loadConstructedPoints(std::vector<double>(2 * d, 0.0), std::vector<double>(OUTS, 0.5)); }, constructing);
  // ---- transforms
  misuse("setDomainTransform(on an empty grid)", [&]{ grid.setDomainTransform(std::vector<double>{0.0}, std::vector<double>{1.0}); }, empty);
  misuse("setDomainTransform(a of wrong size)", [&]{ grid.setDomainTransform(std::vector<double>(d + 1, 0.0), std::vector<double>(d, 1.0)); }, !empty);
  misuse("setDomainTransform(b of wrong size)", [&]{ grid.setDomainTransform(std::vector<double>(d, 0.0), std::vector<double>(d + 2, 1.0)); }, !empty);
  misuse("getDomainTransform(raw arrays, no transform set)", [&]{ std::vector<double> a(d + 1), b(d + 1); grid.getDomainTransform(a.data(), b.data()); }, empty || !grid.isSetDomainTransfrom());
  misuse("setConformalTransformASIN(on an empty grid)", [&]{ grid.setConformalTransformASIN(std::vector<int>{4}); }, empty);
  // ---- refinement
  misuse("setAnisotropicRefinement(during construction)", [&]{ grid.setAnisotropicRefinement(type_iptotal, 1, 0, oklim); }, constructing);
  misuse("setAnisotropicRefinement(no loaded points)", [&]{ grid.setAnisotropicRefinement(type_iptotal, 1, 0, std::vector<int>()); }, !empty && nl == 0 && !constructing);
  misuse("setAnisotropicRefinement(empty grid)", [&]{ grid.setAnisotropicRefinement(type_iptotal, 1, 0, std::vector<int>()); }, empty);
  misuse("setAnisotropicRefinement(min_growth = 0)", [&]{ grid.setAnisotropicRefinement(type_iptotal, 0, 0, oklim); }, !empty && nl > 0 && !local && !constructing && OUTS > 0);
  misuse("setAnisotropicRefinement(output out of range, valid limits)", [&]{ grid.setAnisotropicRefinement(type_iptotal, 1, OUTS + 1, oklim); }, !empty && nl > 0 && !local && !constructing && OUTS > 0);
  misuse("setAnisotropicRefinement(limits of wrong size)", [&]{ grid.setAnisotropicRefinement(type_iptotal, 1, 0, badlim); }, !empty && nl > 0 && !local && !constructing && OUTS > 0);
  misuse("setAnisotropicRefinement(local polynomial / wavelet grid)", [&]{ grid.setAnisotropicRefinement(type_iptotal, 1, 0, std::vector<int>()); }, !empty && nl > 0 && local && !constructing);
  misuse("estimateAnisotropicCoefficients(output out of range)", [&]{ grid.estimateAnisotropicCoefficients(type_iptotal, OUTS + 2); }, !empty && nl > 0 && !local && OUTS > 0);
  misuse("estimateAnisotropicCoefficients(no loaded points)", [&]{ grid.estimateAnisotropicCoefficients(type_iptotal, 0); }, !empty && nl == 0);
  misuse("setSurplusRefinement(tol, output)(negative tolerance, valid limits)", [&]{ grid.setSurplusRefinement(-0.1, 0, oklim); }, !empty && nl > 0 && !local && !constructing && OUTS > 0);
  misuse("setSurplusRefinement(tol, output)(output out of range, valid limits)", [&]{ grid.setSurplusRefinement(0.1, OUTS, oklim); }, !empty && nl > 0 && !local && !constructing && OUTS > 0);
  misuse("setSurplusRefinement(tol, output)(limits of wrong size)", [&]{ grid.setSurplusRefinement(0.1, 0, badlim); }, !empty && nl > 0 && !local && !constructing && OUTS > 0);
  misuse("setSurplusRefinement(tol, output)(local polynomial / wavelet grid)", [&]{ grid.setSurplusRefinement(0.1, 0, std::vector<int>()); }, !empty && nl > 0 && local && !constructing);
  misuse("setSurplusRefinement(tol, output)(global grid with a rule that is not a sequence)", [&]{ grid.setSurplusRefinement(0.1, 0, std::vector<int>()); }, grid.isGlobal() && !OneDimensionalMeta::isSequence(grid.getRule()) && nl > 0 && !constructing && OUTS > 0);
  misuse("setSurplusRefinement(tol, output)(global grid with a rule that is not a sequence, valid limits)", [&]{ grid.setSurplusRefinement(0.1, 0, oklim); }, grid.isGlobal() && !OneDimensionalMeta::isSequence(grid.getRule()) && nl > 0 && !constructing && OUTS > 0);
  misuse("setSurplusRefinement(tol, criteria)(global grid with a rule that is not a sequence)", [&]{ grid.setSurplusRefinement(0.1, refine_classic, 0, std::vector<int>()); }, grid.isGlobal() && !OneDimensionalMeta::isSequence(grid.getRule()) && nl > 0 && !constructing && OUTS > 0);
  misuse("setAnisotropicRefinement(local polynomial / wavelet grid, valid limits)", [&]{ grid.setAnisotropicRefinement(type_iptotal, 1, 0, oklim); }, !empty && nl > 0 && local && !constructing && OUTS > 0);
  misuse("setSurplusRefinement(tol, output)(local polynomial / wavelet / fourier grid, valid limits)", [&]{ grid.setSurplusRefinement(0.1, 0, oklim); }, !empty && nl > 0 && (local || grid.isFourier()) && !constructing && OUTS > 0);
  misuse("setSurplusRefinement(tol, criteria)(global / sequence / fourier grid, valid limits)", [&]{ grid.setSurplusRefinement(0.1, refine_classic, 0, oklim); }, !empty && nl > 0 && !local && !(grid.isSequence() || (grid.isGlobal() && OneDimensionalMeta::isSequence(grid.getRule()))) && !constructing && OUTS > 0);
  misuse("getCandidateConstructionPoints(tol, criteria)(global / sequence / fourier grid, valid limits)", [&]{ grid.getCandidateConstructionPoints(0.1, refine_classic, 0, oklim); }, constructing && !local);
  misuse("getCandidateConstructionPoints(type, output)(local polynomial / wavelet grid, valid limits)", [&]{ grid.getCandidateConstructionPoints(type_level, 0, oklim); }, constructing && local);
  misuse("setSurplusRefinement(tol, output)(during construction)", [&]{ grid.setSurplusRefinement(0.1, 0, std::vector<int>()); }, constructing);
  misuse("setSurplusRefinement(tol, criteria)(output out of range, valid limits)", [&]{ grid.setSurplusRefinement(0.1, refine_classic, OUTS + 3, oklim); }, !empty && nl > 0 && !constructing && OUTS > 0);
  misuse("setSurplusRefinement(tol, criteria)(negative tolerance, valid limits)", [&]{ grid.setSurplusRefinement(-1.0, refine_classic, 0, oklim); }, !empty && nl > 0 && !constructing && OUTS > 0);
  misuse("setSurplusRefinement(tol, criteria)(limits of wrong size)", [&]{ grid.setSurplusRefinement(0.1, refine_classic, 0, badlim); }, !empty && nl > 0 && !constructing && OUTS > 0);
  misuse("setSurplusRefinement(tol, criteria)(scale correction of wrong size)", [&]{ grid.setSurplusRefinement(0.1, refine_classic, 0, std::vector<int>(), std::vector<double>((size_t) nl + 5, 1.0)); }, !empty && nl > 0 && !constructing && OUTS > 0);
  misuse("setSurplusRefinement(tol, criteria)(no loaded points)", [&]{ grid.setSurplusRefinement(0.1, refine_classic, 0, std::vector<int>()); }, !empty && nl == 0 && !constructing);
  misuse("setSurplusRefinement(tol, criteria)(during construction)", [&]{ grid.setSurplusRefinement(0.1, refine_classic, 0, std::vector<int>()); }, constructing);
  misuse("setSurplusRefinement(tol, criteria)(empty grid)", [&]{ grid.setSurplusRefinement(0.1, refine_classic, 0, std::vector<int>()); }, empty);
  misuse("setSurplusRefinement(tol, criteria)(Fourier grid)", [&]{ grid.setSurplusRefinement(0.1, refine_classic, 0, std::vector<int>()); }, grid.isFourier() && nl > 0 && !constructing);
  // ---- updates and other type-specific calls
  misuse("updateGlobalGrid(on a grid that is not Global)", [&]{ grid.updateGlobalGrid(3, type_level, std::vector<int>(), std::vector<int>()); }, !grid.isGlobal());
  misuse("updateSequenceGrid(on a grid that is not Sequence)", [&]{ grid.updateSequenceGrid(3, type_level, std::vector<int>(), std::vector<int>()); }, !grid.isSequence());
  misuse("updateFourierGrid(on a grid that is not Fourier)", [&]{ grid.updateFourierGrid(3, type_level, std::vector<int>(), std::vector<int>()); }, !grid.isFourier());
  misuse("updateGrid(on a local polynomial / wavelet / empty grid)", [&]{ grid.updateGrid(3, type_level, std::vector<int>(), std::vector<int>()); }, empty || local);
  misuse("updateGrid(on a local polynomial / wavelet grid, valid limits)", [&]{ grid.updateGrid(3, type_level, std::vector<int>(), oklim); }, !empty && local);
  misuse("updateGrid(depth = -1, valid limits)", [&]{ grid.updateGrid(-1, type_level, std::vector<int>(), oklim); }, !empty && !local && !constructing);
  misuse("updateGrid(depth = -1)", [&]{ grid.updateGrid(-1, type_level, std::vector<int>(), std::vector<int>()); }, !empty && !local && !constructing);
  misuse("updateGrid(weights of wrong size)", [&]{ grid.updateGrid(3, type_level, badw, std::vector<int>()); }, !empty && !local && !constructing);
  misuse("updateGrid(limits of wrong size)", [&]{ grid.updateGrid(3, type_level, okw, badlim); }, !empty && !local && !constructing);
  misuse("getGlobalPolynomialSpace(on a grid that is neither Global nor Sequence)", [&]{ grid.getGlobalPolynomialSpace(true); }, !grid.isGlobal() && !grid.isSequence());
  misuse("removePointsByHierarchicalCoefficient(on a grid that is not Local Polynomial)", [&]{ grid.removePointsByHierarchicalCoefficient(0.1, 0); }, !grid.isLocalPolynomial());
  for (int keep : {0, 1, 5}) misuse(("removePointsByHierarchicalCoefficient(num_new_points = " + std::to_string(keep) + ")(on a grid that is not Local Polynomial)").c_str(), [&, keep]{ grid.removePointsByHierarchicalCoefficient(keep, 0); }, !grid.isLocalPolynomial());
  misuse("removePointsByHierarchicalCoefficient(tolerance, all outputs)(on a grid that is not Local Polynomial)", [&]{ grid.removePointsByHierarchicalCoefficient(0.0, -1); }, !grid.isLocalPolynomial());
  // ---- construction
  misuse("getCandidateConstructionPoints(type, weights)(before beginConstruction)", [&]{ grid.getCandidateConstructionPoints(type_level, okw, std::vector<int>()); }, !constructing);
  misuse("getCandidateConstructionPoints(type, output)(before beginConstruction)", [&]{ grid.getCandidateConstructionPoints(type_level, 0, std::vector<int>()); }, !constructing);
  misuse("getCandidateConstructionPoints(tol, criteria)(before beginConstruction)", [&]{ grid.getCandidateConstructionPoints(0.1, refine_classic, 0, std::vector<int>()); }, !constructing);
  misuse("getCandidateConstructionPoints(type, weights)(weights of wrong size)", [&]{ grid.getCandidateConstructionPoints(type_level, badw, std::vector<int>()); }, constructing && !local);
  misuse("getCandidateConstructionPoints(type, weights)(limits of wrong size)", [&]{ grid.getCandidateConstructionPoints(type_level, okw, badlim); }, constructing && !local);
  misuse("getCandidateConstructionPoints(type, output)(output out of range, valid limits)", [&]{ grid.getCandidateConstructionPoints(type_level, OUTS + 1, oklim); }, constructing && !local);
  misuse("getCandidateConstructionPoints(type, output)(limits of wrong size)", [&]{ grid.getCandidateConstructionPoints(type_level, 0, badlim); }, constructing && !local);
  misuse("getCandidateConstructionPoints(type, weights)(local polynomial / wavelet grid)", [&]{ grid.getCandidateConstructionPoints(type_level, okw, std::vector<int>()); }, constructing && local);
  misuse("getCandidateConstructionPoints(tol, criteria)(global / sequence / fourier grid)", [&]{ grid.getCandidateConstructionPoints(0.1, refine_classic, 0, std::vector<int>()); }, constructing && !local);
  misuse("getCandidateConstructionPoints(tol, criteria)(output out of range, valid limits)", [&]{ grid.getCandidateConstructionPoints(0.1, refine_classic, OUTS + 1, oklim); }, constructing && local);
  misuse("getCandidateConstructionPoints(tol, criteria)(limits of wrong size)", [&]{ grid.getCandidateConstructionPoints(0.1, refine_classic, 0, badlim); }, constructing && local);
  misuse("beginConstruction(empty grid)", [&]{ grid.beginConstruction(); }, empty);
  // Addons: the documented throws-clause of the tolerance/criteria overload of constructSurrogate (the grid must not be touched before the throw)
  misuse("constructSurrogate(tolerance, criteria)(global / sequence / fourier grid)", [&]{ constructSurrogate<mode_sequential>([](std::vector<double> const&, std::vector<double>&, size_t)->void{}, 10, 1, 1, grid, 0.1, refine_classic); }, !empty && !local && !constructing);
  misuse("constructSurrogate(tolerance, criteria)(global / sequence / fourier grid, parallel mode, checkpoint name)", [&]{ constructSurrogate<mode_parallel>([](std::vector<double> const&, std::vector<double>&, size_t)->void{}, 10, 2, 1, grid, 0.1, refine_fds, -1, std::vector<int>(), "/nonexistent-dir/verif-ck"); }, !empty && !local && !constructing);
  // ---- afterwards the object is fully usable
  bool usable = true;
  try {
    if (empty){ grid.makeLocalPolynomialGrid(2, 1, 1); usable = grid.getNumPoints() == 5; }
    else if (constructing){ grid.finishConstruction(); }
    else if (nn > 0 || nl == 0){ if (OUTS > 0) grid.loadNeededValues(model.values(grid.getNeededPoints(), d)); }
    if (!grid.empty() && grid.getNumLoaded() > 0 && grid.getNumOutputs() > 0){ std::vector<double> y; grid.evaluateBatch(probe, y); usable = usable && y.size() == 2 * (size_t) grid.getNumOutputs(); }
  } catch (...) { usable = false; }
  fpsym_check(usable, "after all reported misuse the object is fully usable (valid follow-up operations succeed)");
  fpsym_finish(); return 0;
}
