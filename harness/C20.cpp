// C20: ParticleSwarm only evaluates inside the domain and tracks the true best.
// args: particles dims iters1 iters2 edit(0 none,1 clearCache,2 clearBestParticles,3 both,4 setParticlePositions+clearCache) split_check(0/1) [iters3 edit2: a third call after a second state edit]
// built with -fno-access-control: the cached values are private members
#include "TasmanianOptimization.hpp"
#include "fpsym.h"
#include <map>
using namespace TasOptimization;

struct Eval { std::vector<double> x; double v; bool inside; };   // one domain test (+ objective value when inside)
struct World {
  int P, D; int n_rng = 0; int n_tests = 0, n_fvals = 0;
  std::map<std::vector<fpsym_key_t>, int> ids;   // distinct points (by expression identity) -> symbol index: domain and objective are functions of the point
  std::vector<Eval> log; size_t pending_from = 0; bool mismatch = false;
  int idOf(const std::vector<double> &xs){ std::vector<fpsym_key_t> x = fpsym_keys(xs); auto it = ids.find(x); int k; if (it != ids.end()) k = it->second; else { k = (int) ids.size(); ids[x] = k; } return (int) fpsym_recorded(k); }
  void call(ParticleSwarmState &state, int iters){
    pending_from = log.size();
    auto inside = [&](const std::vector<double> &x)->bool{ int k = idOf(x); bool in = fpsym_flag(1000 + k, (k % 3) != 1); n_tests++; log.push_back({x, 0.0, in}); return in; };
    auto f = [&](const std::vector<double> &xb, std::vector<double> &fv)->void{
      // the batch passed to the objective must be exactly the points with a true verdict since the previous objective call, in order
      size_t k = 0;
      for (size_t e = pending_from; e < log.size(); e++){
        if (!log[e].inside) continue;
        if (k >= fv.size()){ mismatch = true; break; }
        for (int j=0;j<D;j++) fpsym_ident(xb[k * D + j], log[e].x[j], "objective argument is a point with a true domain verdict");
        int id = idOf(log[e].x);
        double v = fpsym_symbolic(0.5 - 0.125 * id + 0.03 * id * id, 2000 + id, -5.0, 5.0); n_fvals++;
        fv[k] = v; log[e].v = v; k++;
      }
      if (k != fv.size()) mismatch = true;
      pending_from = log.size();
    };
    auto rng = [&]()->double{ double u = fpsym_symbolic(0.25 + 0.125 * (n_rng % 5), 3000 + n_rng, 0.0, 1.0); n_rng++; return u; };
    ParticleSwarm(f, inside, 0.5, 1.5, 2.0, iters, state, rng);
  }
};

int main(int argc, char **argv){
  int P = atoi(argv[1]), D = atoi(argv[2]), it1 = atoi(argv[3]), it2 = atoi(argv[4]), edit1 = atoi(argv[5]), split = atoi(argv[6]); int it3 = argc > 8 ? atoi(argv[7]) : -1, edit2 = argc > 8 ? atoi(argv[8]) : 0; int nph = it3 >= 0 ? 3 : 2; int edit = edit1;
  std::vector<double> pos(P * D), vel(P * D);
  for (int i=0;i<P*D;i++){ pos[i] = fpsym_symbolic(0.3 * (i + 1) - 0.5, 10 + i, -2.0, 2.0); vel[i] = fpsym_symbolic(0.2 - 0.15 * i, 40 + i, -1.0, 1.0); }
  World w; w.P = P; w.D = D;
  ParticleSwarmState state(D, std::vector<double>(pos), std::vector<double>(vel));
  size_t window = 0;            // first log entry of the current "evaluations so far" window
  // history class of a recorded finding: clearCache() issued while some best-position slot had never been set
  // (the next call then evaluates the zero-initialised slot as if it were a visited point); obligations of such
  // histories carry a suffix so that the known finding is matched by history, not by property clause
  std::string hist = ""; bool hist_pending = false;
  double prev_best = 0; bool have_prev = false;
  std::vector<std::vector<fpsym_key_t>> must_revisit;   // best positions known when clearCache() was issued: they stay candidates, the next call evaluates them again
  for (int phase = 0; phase < nph; phase++){
    edit = phase == 0 ? edit1 : edit2;
    w.call(state, phase == 0 ? it1 : (phase == 1 ? it2 : it3));
    for (auto &k : must_revisit){ bool seen = false; for (size_t e = window; e < w.log.size(); e++){ bool same = true; for (int j=0;j<D;j++) if (fpsym_key(w.log[e].x[j]) != k[j]) same = false; if (same) seen = true; }
      fpsym_check(seen, (std::string("after clearCache() the best positions known before are evaluated again by the next call (they stay candidates for the best)") + hist).c_str()); }
    must_revisit.clear();
    fpsym_check(!w.mismatch, "objective receives exactly the in-domain points of the batch");
    if (getenv("C20_DEBUG")){ fprintf(stderr, "phase %d window %zu\n", phase, window); for (size_t e=0;e<w.log.size();e++) fprintf(stderr, "  log %zu id %d x0 %g in %d v %g\n", e, w.idOf(w.log[e].x), fpsym_concrete(w.log[e].x[0]), (int) w.log[e].inside, fpsym_concrete(w.log[e].v));
      for (int i=0;i<=P;i++) fprintf(stderr, "  best slot %d inside %d fval %g pos %g\n", i, (int) state.cache_best_particle_inside[i], fpsym_concrete(state.cache_best_particle_fvals[i]), fpsym_concrete(state.getBestParticlePositions()[i*D])); }
    if (hist_pending){
      // the recorded finding needs, in addition, that the zero-initialised slot (the concrete zero vector) was judged inside the domain
      bool zero_inside = false;
      for (size_t e = window; e < w.log.size(); e++){ bool zero = true; for (int j=0;j<D;j++) if (fpsym_exprid(w.log[e].x[j]) != 0 || fpsym_concrete(w.log[e].x[j]) != 0.0) zero = false; if (zero && w.log[e].inside) zero_inside = true; }
      if (zero_inside) hist = " [history: clearCache while a best-position slot was never set, and the zero vector is inside the domain]";
    }
    std::vector<double> best = state.getBestParticlePositions();
    bool any_inside = false; for (size_t e = window; e < w.log.size(); e++) if (w.log[e].inside) any_inside = true;
    fpsym_check(any_inside == (bool) state.cache_best_particle_inside[P], (std::string("swarm best known iff some point of the window was inside the domain") + hist).c_str());
    if (any_inside && state.cache_best_particle_inside[P]){
      double bv = state.cache_best_particle_fvals[P];
      int found = -1;
      for (size_t e = window; e < w.log.size(); e++){
        if (!w.log[e].inside) continue;
        fpsym_le(bv, w.log[e].v, 10.0, (std::string("swarm best value <= every in-domain evaluation so far") + hist).c_str());
        bool same = (fpsym_key(w.log[e].v) == fpsym_key(bv)); for (int j=0;j<D;j++) if (fpsym_key(w.log[e].x[j]) != fpsym_key(best[P * D + j])) same = false;
        if (same && found < 0) found = (int) e;
      }
      fpsym_check(found >= 0, (std::string("swarm best position/value is a point that was evaluated inside the domain") + hist).c_str());
      if (found >= 0){
        fpsym_ident(bv, w.log[found].v, (std::string("cached swarm best value is the objective value returned for the swarm best position") + hist).c_str());
        for (int j=0;j<D;j++) fpsym_ident(best[P * D + j], w.log[found].x[j], (std::string("swarm best position is a visited in-domain point") + hist).c_str());
      }
      if (have_prev) fpsym_le(bv, prev_best, 10.0, (std::string("swarm best value never increases across calls") + hist).c_str());
      prev_best = bv; have_prev = true;
    }
    for (int i=0;i<P;i++){
      if (!state.cache_best_particle_inside[i]) continue;
      double bv = state.cache_best_particle_fvals[i]; int found = -1;
      for (size_t e = window; e < w.log.size(); e++){
        if (!w.log[e].inside) continue;
        bool same = (fpsym_key(w.log[e].v) == fpsym_key(bv)); for (int j=0;j<D;j++) if (fpsym_key(w.log[e].x[j]) != fpsym_key(best[i * D + j])) same = false;
        if (same && found < 0) found = (int) e;
      }
      fpsym_check(found >= 0, (std::string("particle best position/value is a point that was evaluated inside the domain") + hist).c_str());
      if (found >= 0){
        fpsym_ident(bv, w.log[found].v, (std::string("cached particle best value is the objective value returned for that position") + hist).c_str());
        for (int j=0;j<D;j++) fpsym_ident(best[i * D + j], w.log[found].x[j], (std::string("particle best position is a visited in-domain point") + hist).c_str());
      }
      if (state.cache_best_particle_inside[P]) fpsym_le(state.cache_best_particle_fvals[P], bv, 10.0, (std::string("swarm best value <= particle best value") + hist).c_str());
    }
    if (phase == nph - 1) break;
    if (split && edit == 0 && nph == 2){
      // n then m iterations == n+m iterations on the same random stream, objective and domain
      World w2; w2.P = P; w2.D = D;
      ParticleSwarmState s2(D, std::vector<double>(pos), std::vector<double>(vel));
      w2.call(s2, it1 + it2);
      w.call(state, it2);
      std::vector<double> a = state.getParticlePositions(), b = s2.getParticlePositions();
      for (size_t i=0;i<a.size();i++) fpsym_ident(a[i], b[i], "split n+m: particle positions identical");
      a = state.getParticleVelocities(); b = s2.getParticleVelocities();
      for (size_t i=0;i<a.size();i++) fpsym_ident(a[i], b[i], "split n+m: particle velocities identical");
      a = state.getBestParticlePositions(); b = s2.getBestParticlePositions();
      for (size_t i=0;i<a.size();i++) fpsym_ident(a[i], b[i], "split n+m: best positions identical");
      for (int i=0;i<=P;i++){ fpsym_check(state.cache_best_particle_inside[i] == s2.cache_best_particle_inside[i], "split n+m: best-known flags identical");
        if (state.cache_best_particle_inside[i]) fpsym_ident(state.cache_best_particle_fvals[i], s2.cache_best_particle_fvals[i], "split n+m: cached best values identical"); }
      fpsym_check(w.n_rng == w2.n_rng && w.n_fvals == w2.n_fvals && w.n_tests == w2.n_tests, "split n+m: same number of random draws, objective values and domain tests");
      fpsym_nonconst(state.getParticlePositions()[0], "witness: particle position depends on the inputs");
      fpsym_finish(); return 0;
    }
    // ---- state edit between the calls
    if (edit == 1 || edit == 3 || edit == 4){
      if (edit == 4){ std::vector<double> np(P * D); for (int i=0;i<P*D;i++) np[i] = fpsym_symbolic(-0.4 + 0.35 * i, 70 + i, -2.0, 2.0); state.setParticlePositions(np); }
      bool unset = false; for (int i=0;i<=P;i++) if (!state.cache_best_particle_inside[i]) unset = true;
      if (unset && state.best_positions_initialized) hist_pending = true;
      if (edit != 4){ std::vector<double> bp = state.getBestParticlePositions(); for (int i=0;i<=P;i++) if (state.cache_best_particle_inside[i]){ std::vector<fpsym_key_t> k(D); for (int j=0;j<D;j++) k[j] = fpsym_key(bp[i * D + j]); must_revisit.push_back(k); } }
      state.clearCache(); window = w.log.size(); have_prev = false;   // everything is re-evaluated on the next call
    }
    if (edit == 2 || edit == 3){
      state.clearBestParticles(); must_revisit.clear();   // the bests are forgotten on request
      // best particles forgotten: what remains known are the cached values of the current positions (latest batch of P domain tests)
      if (edit == 2) window = w.log.size() >= (size_t) P ? w.log.size() - P : 0; else window = w.log.size();
      have_prev = false;
    }
  }
  fpsym_nonconst(state.getParticlePositions()[0], "witness: particle position depends on the inputs");
  fpsym_finish(); return 0;
}
