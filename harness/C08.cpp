// C08: level limits bound every point a grid ever contains or proposes; limits persist; saturated limits terminate with zero needed points.
// args: <grid spec> <ops> <pass>   The limits vector is derived from symbolic reals: each entry in {-1,0,1,2} (solver-enumerated classes).
//   ops (comma separated, after "make with limits" and an initial load):
//   A anisotropic refinement (A4 / A7: min_growth 4 / 7) | Sg surplus (global/sequence) | Sc Sf Ss surplus (local/wavelet) | U updateGrid(depth+2) | K construction candidates (+load a few, finish)
//   X clearLevelLimits (afterwards nothing is restricted) | Ud updateGrid(same depth: selects nothing new)
//   suffixes: ^ this call passes loosened limits (each restricted entry + 2) | v this call passes the original limits again | ! the proposal is left pending (not loaded)
//   pass: 0 = limits given at make time only (later calls pass none: persistence) ; 1 = make without limits, limits passed to the first later call only
#include "tgrid.hpp"
#include <sstream>
#include <set>

static std::vector<std::vector<double>> nodes1d;   // per dimension: admissible 1-D nodes (empty = unrestricted)
static void buildAdmissible(const GridSpec &g, const std::vector<int> &lim){
  nodes1d.assign(g.dims, std::vector<double>());
  for (int j=0;j<g.dims;j++){
    if (lim.empty() || lim[j] < 0) continue;
    for (int l=0;l<=lim[j];l++){   // union over the levels (non-nested rules: a level does not contain the lower ones)
      GridSpec s = g; s.dims = 1; s.outputs = 0; s.depth = l; s.type = "level"; s.aw.clear(); s.ll.clear();
      if (g.transform){ s.ta = {g.ta[j]}; s.tb = {g.tb[j]}; }
      TasmanianSparseGrid one; makeGrid(one, s); for (double v : one.getPoints()) nodes1d[j].push_back(v);
    }
  }
}
static std::vector<std::vector<double>> preexisting;   // points the grid had before any limits were in force (not bound by later limits)
static bool admissible(const std::vector<double> &pts, int d){
  for (size_t i=0;i+d<=pts.size();i+=d){
    std::vector<double> p(pts.begin() + i, pts.begin() + i + d); bool old = false; for (auto &q : preexisting) if (q == p) old = true; if (old) continue;
    for (int j=0;j<d;j++){ if (nodes1d[j].empty()) continue; bool ok = false; for (double v : nodes1d[j]) if (std::fabs(v - pts[i + j]) < 1e-11) ok = true; if (!ok) return false; }
  }
  return true;
}

typedef std::set<std::vector<long>> PSet;   // point sets compared on a 1e-9 lattice
static PSet pset(const std::vector<double> &pts, int d, bool only_admissible){
  PSet r;
  for (size_t i=0;i+d<=pts.size();i+=d){
    std::vector<double> p(pts.begin() + i, pts.begin() + i + d);
    if (only_admissible && !admissible(p, d)) continue;
    std::vector<long> k(d); for (int j=0;j<d;j++) k[j] = std::lround(p[j] * 1e9); r.insert(k);
  }
  return r;
}

int main(int argc, char **argv){
  GridSpec g = parseSpec(argv[1]); std::string ops = argv[2]; int pass = atoi(argv[3]);
  int d = g.dims;
  std::vector<int> lim(d); for (int j=0;j<d;j++) lim[j] = fpsym_choice(20 + j, 4, (j == 0) ? 2 : 1) - 1;   // -1, 0, 1, 2
  for (int j=0;j<d;j++) fpsym_note(("limit" + std::to_string(j)).c_str(), lim[j]);
  std::vector<int> none;
  // limits introduced after the grid exists are only claimed when they do not cut below levels the grid already has
  if (pass == 1) for (int j=0;j<d;j++) fpsym_assume(lim[j] == -1 || lim[j] >= g.depth, "limits passed later are not below the levels already present");
  g.ll = pass == 0 ? lim : none;
  TasmanianSparseGrid grid; makeGrid(grid, g);
  std::vector<int> active = pass == 0 ? lim : none;     // the limits documented to be in force
  buildAdmissible(g, active);
  SymModel model(g.outputs, 1000, -1.0, 1.0, false);
  fpsym_check(admissible(grid.getPoints(), d), "make: every point respects the limits");
  bool nested_rule = g.family != "global" || !OneDimensionalMeta::isNonNested(grid.getRule());
  if (pass == 0 && nested_rule){
    // the limits only cut: the grid is exactly the unlimited selection restricted to the admissible levels; a limit of -1 restricts nothing
    GridSpec f = g; f.ll.clear(); TasmanianSparseGrid freeg; makeGrid(freeg, f);
    fpsym_check(pset(grid.getPoints(), d, false) == pset(freeg.getPoints(), d, true), "make: the grid holds exactly the points of the unlimited selection that respect the limits (a limit of -1 leaves the dimension unrestricted)");
  }
  grid.loadNeededValues(model.values(grid.getNeededPoints(), d));
  if (pass == 1){ std::vector<double> lp = grid.getLoadedPoints(); for (size_t i=0;i+d<=lp.size();i+=d) preexisting.push_back(std::vector<double>(lp.begin() + i, lp.begin() + i + d)); }
  bool first_call = true;
  std::stringstream ss(ops); std::string op; int step = 0;
  while (std::getline(ss, op, ',')){
    if (op.empty()) continue;
    bool pending = false, loose_arg = false, tight_arg = false; std::string full = op;
    while (!op.empty() && (op.back() == '!' || op.back() == '^' || op.back() == 'v')){ if (op.back() == '!') pending = true; if (op.back() == '^') loose_arg = true; if (op.back() == 'v') tight_arg = true; op.pop_back(); }
    std::vector<int> loose(d); for (int j=0;j<d;j++) loose[j] = lim[j] < 0 ? -1 : lim[j] + 2;
    std::string tag = "step " + std::to_string(step) + " (" + full + "): ";
    const std::vector<int> &arg = loose_arg ? loose : tight_arg ? lim : (pass == 1 && first_call && op != "X") ? lim : none;   // limits passed with this call
    if (tight_arg && grid.getNumLoaded() > 0){ std::vector<double> lp = grid.getLoadedPoints(); for (size_t i=0;i+d<=lp.size();i+=d) preexisting.push_back(std::vector<double>(lp.begin() + i, lp.begin() + i + d)); }   // points loaded under earlier, looser limits stay
    if (loose_arg || tight_arg){ active = arg; buildAdmissible(g, active); first_call = false; }
    else if (pass == 1 && first_call && op != "X"){ active = lim; buildAdmissible(g, active); first_call = false; }
    double tol = fpsym_symbolic(0.01, 5 + step, 0.0, 0.3);
    if (op == "X"){ grid.clearLevelLimits(); active = none; buildAdmissible(g, active); fpsym_check(grid.getLevelLimits().empty(), (tag + "clearLevelLimits clears").c_str()); step++; continue; }
    if (op == "K"){
      grid.beginConstruction();
      std::vector<double> cand = (grid.isLocalPolynomial() || grid.isWavelet()) ? grid.getCandidateConstructionPoints(tol, refine_fds, -1, arg) : grid.getCandidateConstructionPoints(type_iptotal, 0, arg);
      fpsym_check(admissible(cand, d), (tag + "every candidate construction point respects the limits").c_str());
      fpsym_note("candidates", (long) cand.size() / d);
      int take = std::min<int>(3, (int) cand.size() / d);
      if (take > 0){ std::vector<double> x(cand.begin(), cand.begin() + (size_t) take * d); grid.loadConstructedPoints(x, model.values(x, d)); }
      std::vector<double> cand2 = (grid.isLocalPolynomial() || grid.isWavelet()) ? grid.getCandidateConstructionPoints(tol, refine_classic, -1, none) : grid.getCandidateConstructionPoints(type_level, 0, none);
      fpsym_check(admissible(cand2, d), (tag + "candidates of a later request without limits still respect the stored limits").c_str());
      grid.finishConstruction();
    } else if (op == "A"){ grid.setAnisotropicRefinement(type_iptotal, 1, 0, arg);
    } else if (op == "A4" || op == "A7"){ grid.setAnisotropicRefinement(type_iptotal, op == "A4" ? 4 : 7, 0, arg);   // min_growth larger than what the limits may leave: the call proposes what is left and returns
    } else if (op == "Sg"){ grid.setSurplusRefinement(tol, 0, arg);
    } else if (op == "Sc" || op == "Sf" || op == "Ss"){
      PSet want; bool exact = (op == "Sc");
      if (exact){ // classic criterion: every point proposes its children independently, so the limits only cut the unlimited proposal
        TasmanianSparseGrid twin(grid); twin.clearLevelLimits(); twin.setSurplusRefinement(tol, refine_classic, -1, none);
        want = pset(twin.getNeededPoints(), d, true); }
      grid.setSurplusRefinement(tol, IO::getTypeRefinementString(op == "Sc" ? "classic" : op == "Sf" ? "fds" : "stable"), -1, arg);
      if (exact) fpsym_check(pset(grid.getNeededPoints(), d, false) == want, (tag + "classic refinement with limits proposes exactly the admissible points of the unlimited proposal (no admissible child is lost)").c_str());
    } else if (op == "Ud" || op == "U"){
      int nd = g.depth + (op == "U" ? 2 : 0);
      PSet before = pset(grid.getLoadedPoints(), d, false);
      grid.updateGrid(nd, IO::getDepthTypeString(g.type), g.aw, arg);
      if (nested_rule){
        GridSpec f = g; f.ll.clear(); f.depth = nd; TasmanianSparseGrid freeg; makeGrid(freeg, f);
        std::vector<std::vector<double>> keep = preexisting; preexisting.clear();     // the filter below is the plain limits test
        PSet want = pset(freeg.getPoints(), d, true); preexisting = keep;
        for (auto &k : before) want.insert(k);
        PSet got = pset(grid.getLoadedPoints(), d, false); for (auto &k : pset(grid.getNeededPoints(), d, false)) got.insert(k);
        fpsym_check(got == want, (tag + "update: loaded + needed points are exactly the loaded points plus the admissible points of the unlimited selection").c_str());
      }
    } else { fprintf(stderr, "bad op\n"); return 9; }
    std::vector<int> stored = grid.getLevelLimits();
    fpsym_check(stored == active, (tag + "getLevelLimits() returns the limits in force").c_str());
    fpsym_check(admissible(grid.getNeededPoints(), d), (tag + "every needed point respects the limits").c_str());
    fpsym_check(admissible(grid.getLoadedPoints(), d), (tag + "every loaded point respects the limits").c_str());
    fpsym_note(("needed_after_" + op).c_str(), grid.getNumNeeded());
    if (grid.getNumNeeded() > 0 && !pending) grid.loadNeededValues(model.values(grid.getNeededPoints(), d));
    step++;
  }
  fpsym_check(admissible(grid.getPoints(), d), "final: every point respects the limits in force");
  fpsym_finish(); return 0;
}
