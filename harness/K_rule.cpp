// Engine K: leaf kernels of the 1-D local polynomial rules, translated from LLVM IR to C (ir2c) and decided by CBMC bit-precisely
// for ALL point indexes below MAXP. Build: -DRULE=<localp|semilocalp|localp0|localpb|pwc> -DORDER=<n> -DMAXP=<n> -DCHECK=<k> [-DWITNESS]
#include "tsgRuleLocalPolynomial.hpp"
extern "C" { int nondet_int(); void __VERIFIER_assume(int); void vp_assert(int cond, int id); }
using namespace TasGrid;
constexpr RuleLocal::erule R = RuleLocal::erule::RULE;
#ifndef LEVELS
#define LEVELS 12
#endif
// is a an ancestor-or-self of i in the 1-D hierarchy (parent and step-parent edges)
static bool isAncestorOrSelf(int a, int i){
  int cur[2] = {i, -1};
  for (int s=0; s<LEVELS + 2; s++){
    if (cur[0] == a || cur[1] == a) return true;
    int n0 = -1, n1 = -1;
    if (cur[0] >= 0){ n0 = RuleLocal::getParent<R>(cur[0]); n1 = RuleLocal::getStepParent<R>(cur[0]); }
    if (cur[1] >= 0){ int p = RuleLocal::getParent<R>(cur[1]); int q = RuleLocal::getStepParent<R>(cur[1]);
      if (p >= 0){ if (n0 == -1 || n0 == p) n0 = p; else if (n1 == -1 || n1 == p) n1 = p; else return true; /* more than two live ancestors: treat as related (fewer obligations, sound) */ }
      if (q >= 0){ if (n0 == -1 || n0 == q) n0 = q; else if (n1 == -1 || n1 == q) n1 = q; else return true; } }
    cur[0] = n0; cur[1] = n1;
    if (n0 < 0 && n1 < 0) break;
  }
  return false;
}
extern "C" __attribute__((noinline)) void harness_rule(){
  int i = nondet_int(); __VERIFIER_assume(i >= 0 && i < MAXP);
#if CHECK == 1
  // K1: the basis function of a point is one at its own node; the node lies in the canonical interval
  double xi = RuleLocal::getNode<R>(i);
  vp_assert(xi >= -1.0 && xi <= 1.0, 11);
  vp_assert(RuleLocal::evalRaw<R>(ORDER, i, xi) == 1.0, 12);
#elif CHECK == 2
  // K2: kids and parents are consistent, the level grows by one
  int k = nondet_int(); __VERIFIER_assume(k >= 0 && k < RuleLocal::getMaxNumKids<R>());
  int kid = RuleLocal::getKid<R>(i, k);
  if (kid >= 0){
    vp_assert(RuleLocal::getParent<R>(kid) == i || RuleLocal::getStepParent<R>(kid) == i, 21);
    vp_assert(RuleLocal::getLevel<R>(kid) == RuleLocal::getLevel<R>(i) + 1, 22);
    vp_assert(RuleLocal::getNode<R>(kid) != RuleLocal::getNode<R>(i), 23);
  }
  int dad = RuleLocal::getParent<R>(i);
  if (dad >= 0){ vp_assert(RuleLocal::getLevel<R>(dad) + 1 == RuleLocal::getLevel<R>(i), 24);
    bool listed = false; for (int q=0; q<RuleLocal::getMaxNumKids<R>(); q++) if (RuleLocal::getKid<R>(dad, q) == i) listed = true; vp_assert(listed, 25); }
  else vp_assert(RuleLocal::getLevel<R>(i) == 0, 26);
#elif CHECK == 3
  // K3: hierarchical-basis property: the function of j vanishes at the node of i unless j is an ancestor-or-self of i
  int j = nondet_int(); __VERIFIER_assume(j >= 0 && j < MAXP);
  double xi = RuleLocal::getNode<R>(i);
  if (!isAncestorOrSelf(j, i)) vp_assert(RuleLocal::evalRaw<R>(ORDER, j, xi) == 0.0, 31);
#elif CHECK == 4
  // K4: the number of points of a level counts exactly the points whose level does not exceed it
  int L = nondet_int(); __VERIFIER_assume(L >= 0 && L < LEVELS);
  vp_assert((RuleLocal::getLevel<R>(i) <= L) == (i < RuleLocal::getNumPoints<R>(L)), 41);
#elif CHECK == 5
  // K5: support radius: at every dyadic probe x = -1 + q/64 farther from the node than getSupport(), evalRaw and evalSupport vanish and agree
  int q = nondet_int(); __VERIFIER_assume(q >= 0 && q <= 128);
  double x = -1.0 + (double) q / 64.0; double node = RuleLocal::getNode<R>(i), sup = RuleLocal::getSupport<R>(i);
  bool isSup = true; double a = RuleLocal::evalSupport<R>(ORDER, i, x, isSup); double b = RuleLocal::evalRaw<R>(ORDER, i, x);
  vp_assert(a == b, 51);
  double dist = x - node; if (dist < 0) dist = -dist;
  if (dist > sup) vp_assert(b == 0.0, 52);
  if (!isSup) vp_assert(b == 0.0, 53);
#endif
#ifdef WITNESS
  vp_assert(0, 99);   // reachability witness: must FAIL
#endif
}
