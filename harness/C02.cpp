// C02: quadrature is exact on the polynomial space the grid declares.
// args: <grid spec> <mode>   mode 0: weights vs independent exact moments for all polynomials of the declared space (coefficients symbolic)
//                            mode 1: integrate() == sum_i w_i y_i for all value arrays
// optional 3rd arg: history of the grid that is queried   0 make | 1 make(depth-1) + updateGrid(depth) without values | 2 make(depth-1), load, updateGrid(depth), load
//                                                         3 copy of the made grid | 4 binary write/read of the made grid | 5 assignment from the made grid
#include <sstream>
#include "tgrid.hpp"

// ---- oracle: exact moments of the documented weight functions (hand-written, independent of the library) ----
static long double binom(int n, int k){ long double r = 1; for (int i=1;i<=k;i++) r = r * (n - k + i) / i; return r; }
static long double betaf(long double x, long double y){ return std::exp(std::lgamma(x) + std::lgamma(y) - std::lgamma(x + y)); }
enum WKind { W_UNIFORM, W_JACOBI, W_LAGUERRE, W_HERMITE, W_CC0 };
static WKind kindOf(TypeOneDRule r){
  switch (r){
    case rule_gausschebyshev1: case rule_gausschebyshev1odd: case rule_gausschebyshev2: case rule_gausschebyshev2odd:
    case rule_gaussgegenbauer: case rule_gaussgegenbauerodd: case rule_gaussjacobi: case rule_gaussjacobiodd: return W_JACOBI;
    case rule_gausslaguerre: case rule_gausslaguerreodd: return W_LAGUERRE;
    case rule_gausshermite: case rule_gausshermiteodd: return W_HERMITE;
    case rule_clenshawcurtis0: return W_CC0;
    default: return W_UNIFORM;
  }
}
// canonical moment of x^k
static long double cmoment(WKind kind, int k, long double al, long double be){
  switch (kind){
    case W_UNIFORM: return (k % 2) ? 0.0L : 2.0L / (k + 1);
    case W_CC0: return (k % 2) ? 0.0L : 2.0L / (k - 1) - 2.0L / (k + 1);   // k>=2 is the degree of f = (1-x^2) x^(k-2), a function vanishing at +-1
    case W_JACOBI:
      if (al == be){ if (k % 2) return 0.0L; return betaf(0.5L * (k + 1), al + 1.0L); }   // int x^{2n} (1-x^2)^al = B(n+1/2, al+1)
      { long double s = 0; for (int j=0;j<=k;j++) s += binom(k, j) * std::pow(2.0L, j) * (((k - j) % 2) ? -1.0L : 1.0L) * betaf(be + 1.0L + j, al + 1.0L); return std::pow(2.0L, al + be + 1.0L) * s; }
    case W_LAGUERRE: return std::tgamma((long double) k + al + 1.0L);
    case W_HERMITE: return (k % 2) ? 0.0L : std::tgamma(0.5L * ((long double) k + al + 1.0L));
  }
  return 0;
}
// moment of x^k with respect to the documented weight on the transformed domain
static long double tmoment(WKind kind, int k, long double al, long double be, bool tr, long double a, long double b){
  if (!tr) return cmoment(kind, k, al, be);
  long double s = 0;
  if (kind == W_UNIFORM || kind == W_JACOBI || kind == W_CC0){
    long double r = 0.5L * (b - a), sh = 0.5L * (b + a);
    for (int j=0;j<=k;j++) s += binom(k, j) * std::pow(r, j) * std::pow(sh, k - j) * cmoment(kind, j, al, be);
    return s * (kind == W_JACOBI ? std::pow(r, al + be + 1.0L) : r);
  }
  if (kind == W_LAGUERRE){ // weight (x-a)^al exp(-b (x-a)) on [a, inf)
    for (int j=0;j<=k;j++) s += binom(k, j) * std::pow(a, k - j) * std::pow(b, -(long double) j) * cmoment(kind, j, al, be);
    return s * std::pow(b, -(al + 1.0L));
  }
  // Hermite: weight |x-a|^al exp(-b (x-a)^2)
  for (int j=0;j<=k;j++) s += binom(k, j) * std::pow(a, k - j) * std::pow(b, -0.5L * j) * cmoment(kind, j, al, be);
  return s * std::pow(b, -0.5L * (al + 1.0L));
}

int main(int argc, char **argv){
  GridSpec g = parseSpec(argv[1]); int mode = atoi(argv[2]); int hist = argc > 3 ? atoi(argv[3]) : 0;
  TasmanianSparseGrid grid;
  { // the queried grid is reached through the requested history; the declared space and the weights are those of the final grid
    GridSpec g0 = g; if ((hist == 1 || hist == 2) && g.depth > 0) g0.depth = g.depth - 1;
    TasmanianSparseGrid base; makeGrid(base, g0);
    if (hist == 2 && g.outputs > 0){ SymModel pre(g.outputs, 9000, -1.0, 1.0, false); base.loadNeededValues(pre.values(base.getNeededPoints(), g.dims)); }
    if (hist == 1 || hist == 2){
      base.updateGrid(g.depth, IO::getDepthTypeString(g.type), g.aw, g.ll);
      if (hist == 2 && g.outputs > 0 && base.getNumNeeded() > 0){ SymModel pre(g.outputs, 9500, -1.0, 1.0, false); base.loadNeededValues(pre.values(base.getNeededPoints(), g.dims)); }
    }
    if (hist == 3) grid.copyGrid(&base);
    else if (hist == 4){ std::stringstream ss(std::ios::in | std::ios::out | std::ios::binary); base.write(ss, true); grid.read(ss, true); }
    else if (hist == 5){ grid.makeLocalPolynomialGrid(1, 1, 1); grid = base; }
    else grid = std::move(base);
  }
  int d = g.dims, n = grid.getNumPoints();
  std::vector<double> pts = grid.getPoints(), w = grid.getQuadratureWeights();
  fpsym_note("points", n);
  if (mode == 1){
    SymModel model(g.outputs);
    std::vector<double> y = model.values(grid.getNeededPoints(), d);
    grid.loadNeededValues(y);
    std::vector<double> q; grid.integrate(q);
    std::vector<double> lp = grid.getLoadedPoints(); std::vector<double> lw = grid.getQuadratureWeights();
    double wabs = 1.0; for (int i=0;i<n;i++) wabs += std::fabs(lw[i]);
    for (int k=0;k<g.outputs;k++){
      double s = 0; for (int i=0;i<n;i++) s += lw[i] * model.at(pointAt(lp, d, i))[k];
      fpsym_eq(q[k], s, wabs, "integrate() == sum_i w_i y_i");
    }
    fpsym_nonconst(q[0], "witness: the integral depends on the values");
    fpsym_finish(); return 0;
  }
  TypeOneDRule rule = grid.getRule();
  if (grid.isFourier()){
    // every trigonometric mode attached to a grid point integrates to its exact value (canonical coordinates in [0,1])
    const int *idx = grid.getPointsIndexes();
    std::vector<double> fv(n, 0.0); double expect = 0.0, scale = 1.0, measure = 1.0;
    if (g.transform) for (int j=0;j<d;j++) measure *= (g.tb[j] - g.ta[j]);
    for (int m=0;m<n;m++){
      double am = fpsym_symbolic(0.3 - 0.01 * m, 100 + 2 * m, -1.0, 1.0), bm = fpsym_symbolic(-0.2 + 0.02 * m, 101 + 2 * m, -1.0, 1.0);
      bool zero = true; std::vector<int> e(d); for (int j=0;j<d;j++){ int p = idx[(size_t) m * d + j]; e[j] = (p % 2 == 0) ? p / 2 : -(p + 1) / 2; if (e[j] != 0) zero = false; }
      for (int i=0;i<n;i++){
        double ph = 0; for (int j=0;j<d;j++){ double c = g.transform ? (pts[(size_t) i * d + j] - g.ta[j]) / (g.tb[j] - g.ta[j]) : pts[(size_t) i * d + j]; ph += 2.0 * M_PI * e[j] * c; }
        fv[i] += am * std::cos(ph) + bm * std::sin(ph);
      }
      if (zero) expect += am * measure;
      scale += 2.0;
    }
    double q = 0, sw = 0; for (int i=0;i<n;i++){ q += w[i] * fv[i]; sw += w[i]; }
    fpsym_eq(q, expect, scale * measure, "fourier: weights integrate every mode of the grid exactly");
    fpsym_eq(sw, measure, measure, "weights sum to the measure of the domain");
    if (g.outputs == 1){ std::vector<double> lv(n); std::vector<double> np = grid.getNeededPoints();
      // getPoints order == needed order for a fresh grid
      grid.loadNeededValues(fv); std::vector<double> qi; grid.integrate(qi); fpsym_eq(qi[0], expect, scale * measure, "fourier: integrate() of the loaded modes is exact"); }
    fpsym_nonconst(q, "witness: quadrature value depends on the coefficients");
    fpsym_finish(); return 0;
  }
  WKind kind = kindOf(rule);
  long double al = g.alpha, be = g.beta;
  if (rule == rule_gausschebyshev1 || rule == rule_gausschebyshev1odd){ al = be = -0.5L; }
  if (rule == rule_gausschebyshev2 || rule == rule_gausschebyshev2odd){ al = be = 0.5L; }
  if (rule == rule_gaussgegenbauer || rule == rule_gaussgegenbauerodd){ be = al; }
  std::vector<int> space = grid.getGlobalPolynomialSpace(false);
  int M = (int) space.size() / d;
  fpsym_note("monomials", M);
  std::vector<double> pv(n, 0.0); double expect = 0.0, scale = 1.0; int used = 0;
  for (int m=0;m<M;m++){
    // clenshaw-curtis-zero is by documentation a rule for functions vanishing at the boundary: a declared multi-index s stands for
    // f = prod_j (1-c_j^2) c_j^(s_j-2) in canonical coordinates c; indexes with some s_j < 2 have no such function
    if (kind == W_CC0){ bool ok = true; for (int j=0;j<d;j++) if (space[(size_t) m * d + j] < 2) ok = false; if (!ok) continue; }
    used++;
    double cm = fpsym_symbolic(0.5 - 0.03 * m, 100 + m, -1.0, 1.0);
    long double mu = 1.0L;
    for (int j=0;j<d;j++){
      if (kind == W_CC0) mu *= cmoment(kind, space[(size_t) m * d + j], al, be) * (g.transform ? 0.5L * ((long double) g.tb[j] - g.ta[j]) : 1.0L);
      else mu *= tmoment(kind, space[(size_t) m * d + j], al, be, g.transform != 0, g.transform ? g.ta[j] : 0.0L, g.transform ? g.tb[j] : 0.0L);
    }
    expect += cm * (double) mu; scale += std::fabs((double) mu);
    for (int i=0;i<n;i++){
      double mono = 1.0;
      for (int j=0;j<d;j++){
        double x = pts[(size_t) i * d + j];
        if (kind == W_CC0){ double c = g.transform ? (2.0 * x - g.ta[j] - g.tb[j]) / (g.tb[j] - g.ta[j]) : x; mono *= std::pow(c, space[(size_t) m * d + j] - 2) * (1.0 - c) * (1.0 + c); }
        else mono *= std::pow(x, space[(size_t) m * d + j]);
      }
      pv[i] += cm * mono; scale += std::fabs(w[i] * mono);
    }
  }
  fpsym_note("test_functions", used);
  double q = 0, sw = 0; for (int i=0;i<n;i++){ q += w[i] * pv[i]; sw += w[i]; }
  fpsym_eq(q, expect, scale, "weights integrate every polynomial of getGlobalPolynomialSpace(false) exactly");
  if (kind != W_CC0){
    long double meas = 1.0L; for (int j=0;j<d;j++) meas *= tmoment(kind, 0, al, be, g.transform != 0, g.transform ? g.ta[j] : 0.0L, g.transform ? g.tb[j] : 0.0L);
    double wabs = 0; for (int i=0;i<n;i++) wabs += std::fabs(w[i]);
    fpsym_eq(sw, (double) meas, 1.0 + wabs, "weights sum to the measure of the (transformed) domain");
  }
  if (g.outputs == 1){
    grid.loadNeededValues(pv);    // needed order == getPoints order for a fresh grid
    std::vector<double> qi; grid.integrate(qi);
    fpsym_eq(qi[0], expect, scale, "integrate() of the loaded polynomial is exact");
  }
  if (used > 0) fpsym_nonconst(q, "witness: quadrature value depends on the coefficients");
  fpsym_finish(); return 0;
}
