// C10: a linear domain transform acts as an exact change of variables.
// args: <grid spec (canonical)> <mode>   mode 0: identities with symbolic (a, r = b - a) and symbolic canonical point  | mode 1: getDomainInside predicate
//                                        mode 2: conformal (asin) map composed with a CONCRETE linear transform, symbolic values: the composition is a change of variables and the forward / inverse maps are mutual inverses
// Parametrisation: b := a + r with r >= 0.1 (Gauss-Laguerre: rate b directly; Gauss-Hermite: b := s*s, s > 0), so every division in the
// transform code is a division by a monomial and the identities reduce to polynomial residuals.
#include "tgrid.hpp"

enum Fam { F_INTERVAL, F_FOURIER, F_LAGUERRE, F_HERMITE };
static Fam famOf(const GridSpec &g){ if (g.family == "fourier") return F_FOURIER; if (g.rule.find("laguerre") != std::string::npos) return F_LAGUERRE; if (g.rule.find("hermite") != std::string::npos) return F_HERMITE; return F_INTERVAL; }

int main(int argc, char **argv){
  GridSpec g = parseSpec(argv[1]); int mode = atoi(argv[2]); g.transform = 0;
  int d = g.dims, outs = g.outputs; Fam fam = famOf(g);
  TasmanianSparseGrid g0, g1; makeGrid(g0, g); makeGrid(g1, g);
  if (mode == 2){
    if (fam != F_INTERVAL || outs == 0){ fpsym_finish(); return 0; }
    TasmanianSparseGrid gc, gb; makeGrid(gc, g); makeGrid(gb, g);
    std::vector<double> ta(d), tb(d); for (int j=0;j<d;j++){ ta[j] = 0.25 * j; tb[j] = 4.0 - 0.5 * j; }
    std::vector<int> trunc(d); for (int j=0;j<d;j++) trunc[j] = 4 + 2 * j;
    gc.setConformalTransformASIN(trunc); gb.setConformalTransformASIN(trunc); gb.setDomainTransform(ta, tb);
    auto L = [&](int j, double c)->double{ return 0.5 * (tb[j] - ta[j]) * c + 0.5 * (tb[j] + ta[j]); };
    std::vector<double> pc = gc.getPoints(), pb = gb.getPoints(); int np = gc.getNumPoints();
    bool mapped = true; for (int i=0;i<np;i++) for (int j=0;j<d;j++) if (std::fabs(pb[(size_t) i * d + j] - L(j, pc[(size_t) i * d + j])) > 1e-12) mapped = false;
    fpsym_check(mapped, "conformal + linear: getPoints() are the linearly mapped points of the grid with the conformal map alone");
    SymModel model(outs, 1000, -1.0, 1.0, g.family != "wavelet");
    std::vector<double> vals = model.values(pc, d); gc.loadNeededValues(vals); gb.loadNeededValues(vals);
    double sc = 50.0 * (2.0 + np);
    bool interp = !(gc.isGlobal() && OneDimensionalMeta::isNonNested(gc.getRule())) && (!gc.isLocalPolynomial() || lpParentComplete(gc));
    for (int i=0;i<np;i++){
      // compactly supported bases: a node on the boundary of the domain is where the support ends; the iterative inverse of the conformal map returns it only up to
      // rounding, so the surrogate there may legitimately be the value from outside the support (zero) - boundary nodes are not claimed for these families
      if (gc.isLocalPolynomial() || gc.isWavelet()){ bool edge = false; for (int j=0;j<d;j++) if (std::fabs(std::fabs(pc[(size_t) i * d + j]) - 1.0) < 1e-12) edge = true; if (edge) continue; }
      // forward then inverse map: evaluating at a returned point lands on the node again
      std::vector<double> yb, yc; gb.evaluate(pointAt(pb, d, i), yb); gc.evaluate(pointAt(pc, d, i), yc);
      for (int k=0;k<outs;k++){ fpsym_eq(yb[k], yc[k], sc, "conformal + linear: evaluate at a point of getPoints() equals the conformal-only grid at its point (forward and inverse maps are mutual inverses)");
        if (interp) fpsym_eq(yb[k], vals[(size_t) i * outs + k], sc, "conformal + linear: the surrogate reproduces the value loaded at that point"); }
    }
    for (int p=0;p<3;p++){ std::vector<double> c(d), x(d); for (int j=0;j<d;j++){ c[j] = -0.83 + 0.47 * p + 0.11 * j; x[j] = L(j, c[j]); }
      std::vector<double> yb, yc; gb.evaluate(x, yb); gc.evaluate(c, yc);
      for (int k=0;k<outs;k++) fpsym_eq(yb[k], yc[k], sc, "conformal + linear: evaluate(L(c)) equals the conformal-only surrogate at c (the maps compose)"); }
    std::vector<double> wc = gc.getQuadratureWeights(), wb = gb.getQuadratureWeights(); double al2 = g.alpha, be2 = g.beta;
    if (g.rule.find("chebyshev1") != std::string::npos) al2 = be2 = -0.5; if (g.rule.find("chebyshev2") != std::string::npos) al2 = be2 = 0.5; if (g.rule.find("gegenbauer") != std::string::npos) be2 = al2;
    bool jacf = g.rule.find("gauss-chebyshev") != std::string::npos || g.rule.find("gegenbauer") != std::string::npos || g.rule.find("jacobi") != std::string::npos;
    double f = 1.0; for (int j=0;j<d;j++) f *= jacf ? std::pow(0.5 * (tb[j] - ta[j]), al2 + be2 + 1.0) : 0.5 * (tb[j] - ta[j]);   // the documented factor of the rule family
    bool wok = wc.size() == wb.size(); for (size_t i=0;i<wc.size() && wok;i++) if (std::fabs(wb[i] - wc[i] * f) > 1e-10 * (1.0 + std::fabs(wc[i] * f))) wok = false;
    fpsym_check(wok, "conformal + linear: quadrature weights are the conformal-only weights times the volume factor");
    { // integrate() of both grids against their own weights and the loaded values (each family has its own copy of the conformal branch)
      std::vector<double> qb, qc; gb.integrate(qb); gc.integrate(qc); double wabs = 2.0; for (double w : wb) wabs += std::fabs(w);
      for (int k=0;k<outs;k++){ double sb = 0, s0 = 0; for (int i=0;i<np;i++){ sb += wb[i] * vals[(size_t) i * outs + k]; s0 += wc[i] * vals[(size_t) i * outs + k]; }
        fpsym_eq(qb[k], sb, wabs * 4.0, "conformal + linear: integrate() equals the grid's quadrature weights times the loaded values");
        fpsym_eq(qc[k], s0, wabs * 4.0, "conformal map alone: integrate() equals the grid's quadrature weights times the loaded values"); }
    }
    if (model.symbolic) fpsym_nonconst(vals[0], "witness: values are symbolic");
    fpsym_finish(); return 0;
  }
  std::vector<double> a(d), b(d), r(d), s(d);
  for (int j=0;j<d;j++){
    a[j] = fpsym_symbolic(-0.5 + 0.75 * j, 10 + j, -2.0, 2.0);
    if (fam == F_LAGUERRE){ b[j] = fpsym_symbolic(1.5 + 0.5 * j, 20 + j, 0.5, 3.0); r[j] = b[j]; }
    else if (fam == F_HERMITE){ s[j] = fpsym_symbolic(1.25 + 0.25 * j, 20 + j, 0.5, 2.0); b[j] = s[j] * s[j]; r[j] = b[j]; }
    else { r[j] = fpsym_symbolic(2.5 - 0.5 * j, 20 + j, 0.1, 4.0); b[j] = a[j] + r[j]; }
  }
  g1.setDomainTransform(a, b);
  int n = g0.getNumPoints();
  // documented maps canonical -> transformed and the quadrature factor
  auto T = [&](int j, double c)->double{
    if (fam == F_LAGUERRE) return c / b[j] + a[j];
    if (fam == F_HERMITE) return c / s[j] + a[j];
    if (fam == F_FOURIER) return c * r[j] + a[j];
    return 0.5 * r[j] * c + (a[j] + 0.5 * r[j]); };
  auto dTinv = [&](int j)->double{ // d(canonical)/d(transformed)
    if (fam == F_LAGUERRE) return b[j]; if (fam == F_HERMITE) return s[j]; if (fam == F_FOURIER) return 1.0 / r[j]; return 2.0 / r[j]; };
  double al = g.alpha, be = g.beta;
  if (g.rule.find("chebyshev1") != std::string::npos) al = be = -0.5; if (g.rule.find("chebyshev2") != std::string::npos) al = be = 0.5; if (g.rule.find("gegenbauer") != std::string::npos) be = al;
  bool jac_family = g.rule.find("gauss-chebyshev") != std::string::npos || g.rule.find("gegenbauer") != std::string::npos || g.rule.find("jacobi") != std::string::npos;
  auto qfactor = [&]()->double{ double f = 1.0;
    for (int j=0;j<d;j++){
      if (fam == F_LAGUERRE) f *= std::pow(b[j], -(1.0 + al));
      else if (fam == F_HERMITE) f *= std::pow(s[j], -(1.0 + al));          // b^(-(1+alpha)/2) with b = s^2
      else if (fam == F_FOURIER) f *= r[j];
      else if (jac_family) f *= std::pow(0.5 * r[j], al + be + 1.0);
      else f *= 0.5 * r[j]; }
    return f; };
  double big = 50.0;
  if (mode == 1){
    // getDomainInside(): accepts the transformed domain, rejects points beyond its bounds (outside a band at the boundary)
    auto inside = g1.getDomainInside();
    std::vector<double> x(d); for (int j=0;j<d;j++) x[j] = fpsym_symbolic(0.3 + 0.4 * j, 1 + j, -8.0, 8.0);
    bool got = inside(x);
    bool in_all = true, out_some = false; double band = 1e-9;
    for (int j=0;j<d;j++){
      if (fam == F_HERMITE) continue;                                  // whole real line
      if (fam == F_LAGUERRE){ if (!(x[j] >= a[j] + band)) in_all = false; if (x[j] < a[j] - band) out_some = true; }
      else { if (!(x[j] >= a[j] + band && x[j] <= b[j] - band)) in_all = false; if (x[j] < a[j] - band || x[j] > b[j] + band) out_some = true; }
    }
    if (in_all) fpsym_check(got, "getDomainInside() accepts every point of the transformed domain");
    if (out_some) fpsym_check(!got, "getDomainInside() rejects points beyond the bounds of the transformed domain");
    fpsym_note("inside", got);
    fpsym_finish(); return 0;
  }
  // ---- points
  std::vector<double> p0 = g0.getPoints(), p1 = g1.getPoints();
  for (int i=0;i<n;i++) for (int j=0;j<d;j++) fpsym_eq(p1[(size_t) i * d + j], T(j, p0[(size_t) i * d + j]), big, "getPoints() are the mapped canonical points");
  // ---- quadrature
  std::vector<double> w0 = g0.getQuadratureWeights(), w1 = g1.getQuadratureWeights(); double qf = qfactor();
  for (int i=0;i<n;i++) fpsym_eq(w1[i], w0[i] * qf, big * big, "quadrature weights scale by the documented factor");
  { // the transform travels with the grid: a copy and a grid restored from a stream behave the same
    TasmanianSparseGrid g1c(g1); std::vector<double> wc = g1c.getQuadratureWeights(), pc = g1c.getPoints();
    for (int i=0;i<n;i++) fpsym_eq(wc[i], w0[i] * qf, big * big, "quadrature weights of a COPY of the transformed grid scale by the documented factor");
    for (int i=0;i<n;i++) for (int j=0;j<d;j++) fpsym_eq(pc[(size_t) i * d + j], T(j, p0[(size_t) i * d + j]), big, "getPoints() of a COPY of the transformed grid are the mapped canonical points");
  }
  if (outs > 0){
    SymModel model(outs, 1000, -1.0, 1.0, g.family != "wavelet");
    std::vector<double> vals = model.values(p0, d);     // same values at corresponding points
    g0.loadNeededValues(vals); g1.loadNeededValues(vals);
    // canonical point c and its image
    std::vector<double> c(d), x(d);
    for (int j=0;j<d;j++){
      double lo = fam == F_FOURIER ? 0.0 : (fam == F_LAGUERRE ? 0.0 : (fam == F_HERMITE ? -3.0 : -1.0)), hi = (fam == F_LAGUERRE || fam == F_HERMITE) ? 3.0 : 1.0;
      c[j] = fpsym_symbolic(lo + (0.41 + 0.13 * j) * (hi - lo), 1 + j, lo, hi); x[j] = T(j, c[j]); }
    std::vector<double> y0, y1; g0.evaluate(c, y0); g1.evaluate(x, y1);
    double sc = big * (2.0 + n);
    for (int k=0;k<outs;k++) fpsym_eq(y1[k], y0[k], sc, "evaluate(T(c)) on the transformed grid == canonical surrogate at c");
    if (!g0.isWavelet()){
      std::vector<double> j0, j1; g0.differentiate(c, j0); g1.differentiate(x, j1);
      for (int k=0;k<outs;k++) for (int j=0;j<d;j++) fpsym_eq(j1[(size_t) k * d + j], j0[(size_t) k * d + j] * dTinv(j), sc * 64.0, "differentiate obeys the chain rule: transformed Jacobian == canonical Jacobian x d(canonical)/d(transformed)");
    }
    { // the same factor applies in every state of the grid: loaded, and loaded with a pending refinement (the weights then belong to the loaded points)
      std::vector<double> wl0 = g0.getQuadratureWeights(), wl1 = g1.getQuadratureWeights();
      fpsym_check(wl0.size() == wl1.size(), "loaded grid: as many quadrature weights as the canonical grid");
      for (size_t i=0;i<wl0.size() && i<wl1.size();i++) fpsym_eq(wl1[i], wl0[i] * qf, big * big, "quadrature weights of the LOADED grid scale by the documented factor");
      if (!OneDimensionalMeta::isNonNested(g0.getRule())){
        TasmanianSparseGrid r0(g0), r1(g1);
        if (r0.isLocalPolynomial() || r0.isWavelet()){ r0.setSurplusRefinement(0.0, refine_classic, -1); r1.setSurplusRefinement(0.0, refine_classic, -1); }
        else { r0.setAnisotropicRefinement(type_iptotal, 2, 0); r1.setAnisotropicRefinement(type_iptotal, 2, 0); }
        std::vector<double> wr0 = r0.getQuadratureWeights(), wr1 = r1.getQuadratureWeights();
        fpsym_check(wr0.size() == wr1.size() && r0.getNumNeeded() == r1.getNumNeeded(), "pending refinement: same number of weights and needed points as the canonical grid");
        for (size_t i=0;i<wr0.size() && i<wr1.size();i++) fpsym_eq(wr1[i], wr0[i] * qf, big * big, "quadrature weights of the grid with a PENDING refinement scale by the documented factor");
        std::vector<double> n0 = r0.getNeededPoints(), n1 = r1.getNeededPoints();
        for (size_t i=0;i<n0.size() && i<n1.size();i++) fpsym_eq(n1[i], T((int) (i % d), n0[i]), big, "getNeededPoints() of a pending refinement are the mapped canonical points");
      }
    }
    std::vector<double> q0, q1; g0.integrate(q0); g1.integrate(q1);
    for (int k=0;k<outs;k++) fpsym_eq(q1[k], q0[k] * qf, sc * big, "integrate() scales by the documented factor");
    if (!g0.isGlobal()){
      std::vector<double> i0 = g0.integrateHierarchicalFunctions(), i1 = g1.integrateHierarchicalFunctions();
      for (size_t i=0;i<i0.size();i++) fpsym_eq(i1[i], i0[i] * qf, big * big, "integrateHierarchicalFunctions() scales by the documented factor");
    }
    if (g0.isLocalPolynomial() || g0.isWavelet()){
      std::vector<double> s0 = g0.getHierarchicalSupport(), s1 = g1.getHierarchicalSupport();
      for (int i=0;i<n;i++) for (int j=0;j<d;j++) fpsym_eq(s1[(size_t) i * d + j], s0[(size_t) i * d + j] * 0.5 * r[j], big, "getHierarchicalSupport() scales by the Jacobian of the map");
    }
    if (model.symbolic) fpsym_nonconst(y1[0], "witness: transformed surrogate depends on the transform and the values");
  }
  fpsym_nonconst(p1[0], "witness: transformed points depend on the transform");
  fpsym_finish(); return 0;
}
