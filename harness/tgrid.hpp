// shared helpers of the engine-B harnesses: grid construction from a textual spec, symbolic model values
#ifndef TGRID_HPP
#define TGRID_HPP
#include "TasmanianSparseGrid.hpp"
#include "fpsym.h"
#include <map>
#include <algorithm>
#include <set>
#include "tsgRuleLocalPolynomial.hpp"
#include <sstream>
#include <cmath>
using namespace TasGrid;

struct GridSpec {
  std::string family, rule, type; int dims = 2, outputs = 1, depth = 2, order = 1, aniso = 0, limits = 0, transform = 0; double alpha = 0, beta = 0;
  std::vector<int> aw, ll; std::vector<double> ta, tb;
};
// spec: family,rule,dims,outputs,depth,type,order,aniso,limits,transform[,alpha,beta]
static GridSpec parseSpec(const char *s){
  GridSpec g; std::vector<std::string> t; std::stringstream ss(s); std::string item;
  while (std::getline(ss, item, ',')) t.push_back(item);
  g.family = t[0]; g.rule = t[1]; g.dims = atoi(t[2].c_str()); g.outputs = atoi(t[3].c_str()); g.depth = atoi(t[4].c_str()); g.type = t[5];
  g.order = atoi(t[6].c_str()); g.aniso = atoi(t[7].c_str()); g.limits = atoi(t[8].c_str()); g.transform = atoi(t[9].c_str());
  if (t.size() > 10) g.alpha = atof(t[10].c_str());
  if (t.size() > 11) g.beta = atof(t[11].c_str());
  if (g.aniso == 2 && g.type.find("curved") != std::string::npos){ for (int j=0;j<g.dims;j++) g.aw.push_back(2); for (int j=0;j<g.dims;j++) g.aw.push_back(-3); }   // linear + curved < 0: the selection is not provably a lower set (general selection path)
  else if (g.aniso == 4 && g.type.find("curved") != std::string::npos){ for (int j=0;j<g.dims;j++) g.aw.push_back(1); for (int j=0;j<g.dims;j++) g.aw.push_back(j == 0 ? -3 : 0); }   // strongly negative curved weight in the first direction only: (1,k) is cheaper than (0,k), the raw selection is not a lower set
  else if (g.aniso == 3){ for (int j=0;j<g.dims;j++) g.aw.push_back(j == 0 ? 3 : 1); if (g.type.find("curved") != std::string::npos) for (int j=0;j<g.dims;j++) g.aw.push_back(0); }   // a shallow first direction
  else if (g.aniso){ for (int j=0;j<g.dims;j++) g.aw.push_back(1 + (j % 2)); if (g.type.find("curved") != std::string::npos) for (int j=0;j<g.dims;j++) g.aw.push_back(j % 2); }
  if (g.limits == 1){ for (int j=0;j<g.dims;j++) g.ll.push_back(j == 0 ? 1 : -1); }
  if (g.limits == 3){ for (int j=0;j<g.dims;j++) g.ll.push_back(j == 0 ? 8 : 4); }   // loose limits: they select the code path, they do not cut the set
  if (g.limits == 2){ for (int j=0;j<g.dims;j++) g.ll.push_back(j == 0 ? 2 : 1); }
  if (g.transform){ for (int j=0;j<g.dims;j++){ g.ta.push_back(-0.5 + 0.25 * j); g.tb.push_back(1.5 + 0.5 * j); } }
  return g;
}
static void makeGrid(TasmanianSparseGrid &grid, const GridSpec &g){
  TypeOneDRule rule = IO::getRuleString(g.rule); TypeDepth type = IO::getDepthTypeString(g.type);
  if (g.family == "global") grid.makeGlobalGrid(g.dims, g.outputs, g.depth, type, rule, g.aw, g.alpha, g.beta, nullptr, g.ll);
  else if (g.family == "sequence") grid.makeSequenceGrid(g.dims, g.outputs, g.depth, type, rule, g.aw, g.ll);
  else if (g.family == "localp") grid.makeLocalPolynomialGrid(g.dims, g.outputs, g.depth, g.order, rule, g.ll);
  else if (g.family == "wavelet") grid.makeWaveletGrid(g.dims, g.outputs, g.depth, g.order, g.ll);
  else if (g.family == "fourier") grid.makeFourierGrid(g.dims, g.outputs, g.depth, type, g.aw, g.ll);
  else { fprintf(stderr, "bad family\n"); exit(9); }
  if (g.transform) grid.setDomainTransform(g.ta, g.tb);
}
// the "model": a fresh symbolic value per (grid point, output), remembered by coordinates so that the same
// point always carries the same symbols; `generation` lets a reload supply different values
// magnitude of the model values (argument "vs=<x>" of a harness): the library is linear in the values, so every value-proportional
// obligation scales with it; a tiny magnitude exposes absolute thresholds hidden in linear algorithms
static double g_vscale = 1.0;
static void parseVScale(int argc, char **argv){ for (int i=1;i<argc;i++) if (strncmp(argv[i], "vs=", 3) == 0) g_vscale = atof(argv[i] + 3); }
struct SymModel {
  int outputs; int next_id; double lo, hi; bool symbolic; bool zeroed = false;   // zeroed: every known value is the constant zero (after mergeRefinement)
  std::map<std::vector<double>, std::vector<double>> table; // coordinates -> values (shadows travel with the doubles)
  std::map<std::vector<double>, int> first_id;
  SymModel(int outs, int base_id = 1000, double l = -1.0, double h = 1.0, bool sym = true) : outputs(outs), next_id(base_id), lo(l), hi(h), symbolic(sym) {}
  static double dflt(const std::vector<double> &x, int k){ double s = 0.3 + 0.17 * k; for (size_t j=0;j<x.size();j++) s += (0.35 + 0.2 * j) * x[j] - 0.21 * x[j] * x[j] * (j + 1 + k); return 0.5 * std::sin(2.0 * s) + 0.1 * k; }
  const std::vector<double>& at(const std::vector<double> &x){
    auto it = table.find(x);
    if (it != table.end()) return it->second;
    std::vector<double> v(outputs);
    first_id[x] = next_id; zeroed = false;
    for (int k=0;k<outputs;k++){ double d = dflt(x, k); if (d < lo) d = lo; if (d > hi) d = hi; v[k] = symbolic ? fpsym_symbolic(d * g_vscale, next_id, lo * g_vscale, hi * g_vscale) : d * g_vscale; next_id++; }
    return table.emplace(x, v).first->second;
  }
  void renew(){ table.clear(); } // next lookups create fresh symbols (overwriting reload)
  // values for a list of points (num x dims), in the order given
  std::vector<double> values(const std::vector<double> &pts, int dims){
    size_t n = dims ? pts.size() / dims : 0; std::vector<double> y(n * outputs);
    for (size_t i=0;i<n;i++){ std::vector<double> x(pts.begin() + i * dims, pts.begin() + (i + 1) * dims); const std::vector<double> &v = at(x); for (int k=0;k<outputs;k++) y[i * outputs + k] = v[k]; }
    return y;
  }
};
// 1-D hierarchy of the local polynomial rules through the library's own rule functions
static int lpParent(RuleLocal::erule r, int p, bool step){
  using RuleLocal::erule;
  switch (r){
    case erule::pwc: return step ? RuleLocal::getStepParent<erule::pwc>(p) : RuleLocal::getParent<erule::pwc>(p);
    case erule::localp: return step ? RuleLocal::getStepParent<erule::localp>(p) : RuleLocal::getParent<erule::localp>(p);
    case erule::semilocalp: return step ? RuleLocal::getStepParent<erule::semilocalp>(p) : RuleLocal::getParent<erule::semilocalp>(p);
    case erule::localp0: return step ? RuleLocal::getStepParent<erule::localp0>(p) : RuleLocal::getParent<erule::localp0>(p);
    default: return step ? RuleLocal::getStepParent<erule::localpb>(p) : RuleLocal::getParent<erule::localpb>(p);
  }
}
static int lpLevel(RuleLocal::erule r, int p){
  using RuleLocal::erule;
  switch (r){
    case erule::pwc: return RuleLocal::getLevel<erule::pwc>(p);
    case erule::localp: return RuleLocal::getLevel<erule::localp>(p);
    case erule::semilocalp: return RuleLocal::getLevel<erule::semilocalp>(p);
    case erule::localp0: return RuleLocal::getLevel<erule::localp0>(p);
    default: return RuleLocal::getLevel<erule::localpb>(p);
  }
}
static int lpKid(RuleLocal::erule r, int p, int k){
  using RuleLocal::erule;
  switch (r){
    case erule::pwc: return RuleLocal::getKid<erule::pwc>(p, k);
    case erule::localp: return RuleLocal::getKid<erule::localp>(p, k);
    case erule::semilocalp: return RuleLocal::getKid<erule::semilocalp>(p, k);
    case erule::localp0: return RuleLocal::getKid<erule::localp0>(p, k);
    default: return RuleLocal::getKid<erule::localpb>(p, k);
  }
}
// A history chosen by the solver: `steps` steps, each a symbolic integer over {nothing, load / overwrite, pending refinement, merge, update,
// begin construction + two samples, finish construction}; steps that are not valid in the current state do nothing. The path explorer enumerates the alternatives.
static void solverChosenHistory(TasmanianSparseGrid &grid, const GridSpec &g, SymModel &model, int steps, int idbase){
  int d = g.dims, outs = g.outputs; bool local = grid.isLocalPolynomial() || grid.isWavelet(); bool nested = !OneDimensionalMeta::isNonNested(grid.getRule());
  for (int stepi = 0; stepi < steps; stepi++){
    int pick = fpsym_choice(idbase + stepi, 7, (2 * stepi + 1) % 7);
    fpsym_note(("history_step_" + std::to_string(idbase + stepi)).c_str(), pick);
    bool constructing = grid.isUsingConstruction();
    if (pick == 1 && !constructing){
      if (grid.getNumNeeded() > 0) grid.loadNeededValues(model.values(grid.getNeededPoints(), d));
      else if (grid.getNumLoaded() > 0){ model.renew(); model.next_id = 2000 + 300 * (idbase + stepi); grid.loadNeededValues(model.values(grid.getLoadedPoints(), d)); }   // overwrite every value with fresh symbols (the model now describes the new values)
    } else if (pick == 2 && !constructing && nested && grid.getNumLoaded() > 0){
      if (local) grid.setSurplusRefinement(0.0, refine_classic, -1, g.ll); else grid.setAnisotropicRefinement(type_iptotal, 2, 0, g.ll);
    } else if (pick == 3 && !constructing && grid.getNumLoaded() > 0){
      bool had = grid.getNumNeeded() > 0; grid.mergeRefinement();
      if (had){ // documented: after a merge every value is zero (the model now describes those values)
        model.table.clear(); model.zeroed = true; std::vector<double> lp = grid.getLoadedPoints();
        for (size_t i=0;i+d<=lp.size();i+=d) model.table[std::vector<double>(lp.begin() + i, lp.begin() + i + d)] = std::vector<double>(outs, 0.0); }
    } else if (pick == 4 && !constructing && !local){ grid.updateGrid(g.depth + 1, IO::getDepthTypeString(g.type), g.aw, g.ll);
    } else if (pick == 5 && nested){
      if (!constructing) grid.beginConstruction();
      std::vector<double> cand = local ? grid.getCandidateConstructionPoints(0.0, refine_classic, -1, g.ll) : grid.getCandidateConstructionPoints(type_level, 0, g.ll);
      std::vector<std::vector<double>> cp; for (size_t i=0;i+d<=cand.size();i+=d) cp.push_back(std::vector<double>(cand.begin() + i, cand.begin() + i + d)); std::sort(cp.begin(), cp.end());
      size_t take = std::min<size_t>(cp.size(), 2); std::vector<double> x; for (size_t i=0;i<take;i++) x.insert(x.end(), cp[cp.size() - 1 - i].begin(), cp[cp.size() - 1 - i].end());   // the lexicographically last ones: often not connected yet
      if (take) grid.loadConstructedPoints(x, model.values(x, d));
    } else if (pick == 6 && constructing){ grid.finishConstruction(); }
  }
}
// every loaded point has all of its hierarchical parents loaded
static bool lpParentComplete(const TasmanianSparseGrid &grid){
  int d = grid.getNumDimensions(), n = grid.getNumLoaded(); if (n == 0) return true;
  RuleLocal::erule r = RuleLocal::getEffectiveRule(grid.getOrder(), grid.getRule());
  const int *idx = grid.getPointsIndexes(); // loaded points first
  std::set<std::vector<int>> have; for (int i=0;i<n;i++) have.insert(std::vector<int>(idx + (size_t) i * d, idx + (size_t) (i + 1) * d));
  for (int i=0;i<n;i++){ std::vector<int> p(idx + (size_t) i * d, idx + (size_t) (i + 1) * d);
    for (int j=0;j<d;j++) for (int s=0;s<2;s++){ int dad = lpParent(r, p[j], s == 1); if (dad < 0) continue; std::vector<int> q = p; q[j] = dad; if (!have.count(q)) return false; } }
  return true;
}
// every observable of a grid; output-dependent quantities are stored as strips of length `outs`
struct Obs { std::vector<long> ints; std::vector<double> coords; std::vector<double> outdep; int outs; int strips; };
// every observable; output-dependent quantities are stored as strips of length `outs`
static Obs observe(TasmanianSparseGrid &grid, const std::vector<double> &probe){
  Obs o; int d = grid.getNumDimensions(); o.outs = grid.getNumOutputs();
  if (grid.empty()){ o.ints = {-1}; o.strips = 0; return o; }
  o.ints = {d, grid.getNumLoaded(), grid.getNumNeeded(), grid.getNumPoints(), (long) grid.isUsingConstruction(), (long) grid.getRule(), grid.getOrder(), (long) grid.isSetDomainTransfrom(),
            (long) grid.isGlobal(), (long) grid.isSequence(), (long) grid.isLocalPolynomial(), (long) grid.isWavelet(), (long) grid.isFourier()};
  for (int l : grid.getLevelLimits()) o.ints.push_back(l);
  auto add = [&](const std::vector<double> &v){ o.coords.insert(o.coords.end(), v.begin(), v.end()); };
  add(grid.getLoadedPoints()); add(grid.getNeededPoints());
  if (grid.isSetDomainTransfrom()){ std::vector<double> a, b; grid.getDomainTransform(a, b); add(a); add(b); }
  if (grid.getNumPoints() > 0) add(grid.getQuadratureWeights());
  int n = grid.getNumLoaded();
  if (n > 0 && o.outs > 0){
    const double *v = grid.getLoadedValues(); o.outdep.insert(o.outdep.end(), v, v + (size_t) n * o.outs);
    const double *c = grid.getHierarchicalCoefficients(); o.outdep.insert(o.outdep.end(), c, c + (size_t) (grid.isFourier() ? 2 : 1) * n * o.outs);
    std::vector<double> y; grid.evaluateBatch(probe, y); o.outdep.insert(o.outdep.end(), y.begin(), y.end());
    std::vector<double> q; grid.integrate(q); o.outdep.insert(o.outdep.end(), q.begin(), q.end());
  }
  o.strips = o.outs ? (int) o.outdep.size() / o.outs : 0;
  return o;
}
static inline std::vector<double> pointAt(const std::vector<double> &pts, int dims, int i){ return std::vector<double>(pts.begin() + (size_t) i * dims, pts.begin() + (size_t) (i + 1) * dims); }
#endif
