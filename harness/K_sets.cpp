// Engine K: the sorted multi-index set algebra and the value merge that follows it (tsgIndexSets.cpp), the mechanism behind C07/C09/C11:
//   MultiIndexSet::addSortedIndexes (three-way merge), operator- (set difference), getSlot (binary search), removeIndex,
//   MultiIndexSet(Data2D) (sort + unique), StorageSet::addValues (values follow the merge of the index sets).
// ALL strictly sorted sets with exactly NA and NB multi-indexes of DIMS entries in [0, MAXV] are covered by one CBMC query per CHECK and size pair
// (the sizes are compile-time constants: with symbolic sizes CBMC's heap model did not finish within 35 GB; the size pairs are enumerated as configurations).
// Build: -DCHECK=<k> -DDIMS=<d> -DNA=<n> -DNB=<n> -DMAXV=<v> [-DWITNESS]
#include "tsgIndexSets.cpp"
extern "C" { int nondet_int(); void __VERIFIER_assume(int); void vp_assert(int cond, int id); }
using namespace TasGrid;

static int cmp(const int *a, const int *b){ for (int j=0;j<DIMS;j++){ if (a[j] < b[j]) return -1; if (a[j] > b[j]) return 1; } return 0; }
// arbitrary strictly sorted list of n <= cap multi-indexes
static int pick(int *buf, int cap){
  int n = cap;
  for (int i=0;i<cap*DIMS;i++){ int v = nondet_int(); __VERIFIER_assume(v >= 0 && v <= MAXV); buf[i] = v; }
  for (int i=0;i+1<cap;i++) if (i + 1 < n) __VERIFIER_assume(cmp(buf + i * DIMS, buf + (i + 1) * DIMS) < 0);
  return n;
}
static int find(const int *buf, int n, const int *p){ for (int i=0;i<n;i++) if (cmp(buf + i * DIMS, p) == 0) return i; return -1; }
static bool sortedSet(const MultiIndexSet &s){
  if ((size_t) s.getNumIndexes() * DIMS != s.totalSize()) return false;
  for (int i=0;i+1<s.getNumIndexes();i++) if (cmp(s.getIndex(i), s.getIndex(i + 1)) >= 0) return false;
  return true;
}

extern "C" __attribute__((noinline)) void harness_rule(){
  int a[NA * DIMS], b[NB * DIMS];
  int na = pick(a, NA), nb = pick(b, NB);
  MultiIndexSet A((size_t) DIMS, std::vector<int>(a, a + na * DIMS)), B((size_t) DIMS, std::vector<int>(b, b + nb * DIMS));
#if CHECK == 1
  // union by the three-way merge
  MultiIndexSet U = A; U += B;
  vp_assert(sortedSet(U), 81);                                                               // K81: the merge is strictly sorted (no duplicate) and its cached count matches its storage
  bool all_in = true; for (int i=0;i<na;i++) if (U.getSlot(a + i * DIMS) < 0) all_in = false; for (int i=0;i<nb;i++) if (U.getSlot(b + i * DIMS) < 0) all_in = false;
  vp_assert(all_in, 82);                                                                     // K82: nothing is lost: every index of either operand is found in the merge
  bool only = true; for (int i=0;i<U.getNumIndexes();i++) if (find(a, na, U.getIndex(i)) < 0 && find(b, nb, U.getIndex(i)) < 0) only = false;
  vp_assert(only, 83);                                                                       // K83: nothing is invented: every index of the merge comes from an operand
#elif CHECK == 2
  // set difference
  MultiIndexSet D = A - B;
  vp_assert(D.empty() || sortedSet(D), 84);                                                  // K84: the difference is strictly sorted
  bool ok = true;
  for (int i=0;i<na;i++){ bool inB = find(b, nb, a + i * DIMS) >= 0; bool inD = !D.empty() && D.getSlot(a + i * DIMS) >= 0; if (inB == inD) ok = false; }
  for (int i=0;i<D.getNumIndexes();i++) if (find(a, na, D.getIndex(i)) < 0) ok = false;
  vp_assert(ok, 85);                                                                         // K85: A - B holds exactly the indexes of A that are not in B
#elif CHECK == 3
  // binary search and removal
  int p[DIMS]; for (int j=0;j<DIMS;j++){ p[j] = nondet_int(); __VERIFIER_assume(p[j] >= -1 && p[j] <= MAXV + 1); }
  int want = find(a, na, p), got = A.empty() ? -1 : A.getSlot(p);
  vp_assert(got == want, 86);                                                                // K86: getSlot returns the position of the index, -1 iff it is absent
  MultiIndexSet R = A; if (!R.empty()) R.removeIndex(std::vector<int>(p, p + DIMS));
  bool ok = R.getNumIndexes() == na - (want >= 0 ? 1 : 0) && (R.empty() || sortedSet(R));
  for (int i=0;i<na;i++) if (i != want && (R.empty() || R.getSlot(a + i * DIMS) < 0)) ok = false;
  if (want >= 0 && !R.empty() && R.getSlot(p) >= 0) ok = false;
  vp_assert(ok, 87);                                                                         // K87: removeIndex removes exactly that index
#elif CHECK == 4
  // values follow the merge: disjoint old (A) and new (B) sets, one integer-valued tag per index and output
  for (int i=0;i<nb;i++) __VERIFIER_assume(find(a, na, b + i * DIMS) < 0);
  __VERIFIER_assume(na >= 1);
  const int outs = 2;
  std::vector<double> va((size_t) na * outs), vb((size_t) NB * outs);
  for (int i=0;i<na;i++) for (int k=0;k<outs;k++) va[(size_t) i * outs + k] = 100 + 10 * i + k;
  for (int i=0;i<NB;i++) for (int k=0;k<outs;k++) vb[(size_t) i * outs + k] = 500 + 10 * i + k;
  StorageSet S((int) outs, na, std::vector<double>(va));
  S.addValues(A, B, vb.data());
  MultiIndexSet U = A; if (nb > 0) U += B;
  bool ok = (S.end() - S.begin()) == (long) (na + nb) * outs;
  for (int i=0;i<U.getNumIndexes() && ok;i++){
    int ia = find(a, na, U.getIndex(i)), ib = find(b, nb, U.getIndex(i));
    const double *v = S.getValues(i);
    for (int k=0;k<outs;k++) if (v[k] != (ia >= 0 ? 100 + 10 * ia + k : 500 + 10 * ib + k)) ok = false;
  }
  vp_assert(ok, 88);                                                                         // K88: after addValues the i-th strip is the value supplied for the i-th index of the merged set
#elif CHECK == 5
  // unsorted input with repetitions: sort + unique
  const int n = NA;
  Data2D<int> raw(DIMS, n); for (int i=0;i<n;i++) for (int j=0;j<DIMS;j++){ int v = nondet_int(); __VERIFIER_assume(v >= 0 && v <= MAXV); raw.getStrip(i)[j] = v; }
  MultiIndexSet S(raw);
  bool ok = sortedSet(S);
  for (int i=0;i<n;i++) if (S.getSlot(raw.getStrip(i)) < 0) ok = false;
  for (int i=0;i<S.getNumIndexes();i++){ bool f = false; for (int r=0;r<n;r++) if (cmp(raw.getStrip(r), S.getIndex(i)) == 0) f = true; if (!f) ok = false; }
  vp_assert(ok, 89);                                                                         // K89: MultiIndexSet(Data2D) is the sorted, duplicate-free set of the given rows
#endif
#ifdef WITNESS
  vp_assert(0, 99);
#endif
}
