// C18 (schedule-independent clauses): candidate bookkeeping, budgets, exactly-once evaluation, value association.
// args: mode ...
//  mode 0: CandidateManager  <dims> <ncand> <batch> <ops>     ops: string over {n (next), c (complete oldest running batch), r (re-assign candidates: odd generations the same list), R (re-assign: every entry kept or replaced by a new point, solver-chosen)}
//  mode 1: constructSurrogate <grid spec> <parallel 0/1> <jobs> <batch> [latency]     budget from a symbolic real; latency 0 none | 1 the first point computed is slow (30 ms) | 2 every second point is slow (8 ms)
//  mode 2: loadNeededValues addon <grid spec> <threads>
// built with -fno-access-control (CandidateManager internals are read for the invariants)
#include "TasmanianAddons.hpp"
#include "tgrid.hpp"
#include <mutex>
#include <set>
#include <thread>
#include <chrono>
#include <atomic>

static int mode0(int argc, char **argv){
  int d = atoi(argv[2]), nc = atoi(argv[3]), batch = atoi(argv[4]); std::string ops = argv[5];
  // candidate coordinates are symbolic: orderings and near-ties (num_tol) become path classes
  auto cands = [&](int gen){ std::vector<double> c((size_t) nc * d); for (int i=0;i<nc*d;i++) c[i] = fpsym_symbolic(0.1 + 0.23 * ((i * 7 + gen * 3) % 9) - 0.5, 100 + 50 * gen + i, -1.0, 1.0); return c; };
  CandidateManager man(d, batch);
  // contract of the caller: a candidate list holds pairwise distinct points (well separated w.r.t. the matching tolerance)
  auto distinct = [&](const std::vector<double> &c){ for (int a=0;a<nc;a++) for (int b=a+1;b<nc;b++){ bool sep = false; for (int j=0;j<d;j++) if (std::fabs(c[(size_t) a * d + j] - c[(size_t) b * d + j]) > 1e-3) sep = true; fpsym_assume(sep, "candidate points are pairwise distinct"); } };
  std::vector<double> current = cands(0); distinct(current); man = std::vector<double>(current);
  std::vector<std::vector<double>> running;   // batches handed out and not yet completed (oracle)
  std::vector<std::vector<fpsym_key_t>> handed; // every point ever handed out for the current candidate list
  int gen = 0, step = 0;
  for (char op : ops){
    std::string tag = "step " + std::to_string(step++) + " (" + op + "): ";
    if (op == 'n'){
      int budget = fpsym_choice(20 + step, 4, 2);   // 0..3, includes 0
      std::vector<double> x = man.next((size_t) budget);
      size_t got = x.size() / d;
      fpsym_check(got <= (size_t) std::min(budget, batch), (tag + "next(budget) returns at most min(budget, batch) points").c_str());
      for (size_t i=0;i<got;i++){
        std::vector<double> p(x.begin() + i * d, x.begin() + (i + 1) * d); auto k = fpsym_keys(p);
        bool dup = std::find(handed.begin(), handed.end(), k) != handed.end();
        fpsym_check(!dup, (tag + "a candidate is handed out at most once while it is running or done").c_str());
        handed.push_back(k);
        bool member = false; for (int c=0;c<nc;c++){ bool same = true; for (int j=0;j<d;j++) if (fpsym_key(current[(size_t) c * d + j]) != k[j]) same = false; if (same) member = true; }
        fpsym_check(member, (tag + "next() returns points of the current candidate list").c_str());
      }
      if (got) running.push_back(x);
    } else if (op == 'c'){
      if (running.empty()) continue;
      std::vector<double> x = running.front(); running.erase(running.begin());
      man.complete(x);
    } else if (op == 'R'){
      // refresh after which some running points may no longer be candidates (a late sample changed the surpluses): each entry is kept or replaced
      gen++; std::vector<double> fresh = cands(10 + gen);
      for (int c=0;c<nc;c++){ int keep = fpsym_choice(60 + 10 * gen + c, 2, c % 2); if (!keep) for (int j=0;j<d;j++) current[(size_t) c * d + j] = fresh[(size_t) c * d + j]; }
      distinct(current); man = std::vector<double>(current);
      handed.clear(); for (auto &b : running) for (size_t i=0;i<b.size()/d;i++) handed.push_back(fpsym_keys(std::vector<double>(b.begin() + i * d, b.begin() + (i + 1) * d)));
    } else if (op == 'r'){
      gen++; current = cands(gen % 2 == 1 ? 0 : gen); distinct(current); man = std::vector<double>(current);   // odd generations re-propose the same list
      handed.clear(); for (auto &b : running) for (size_t i=0;i<b.size()/d;i++) handed.push_back(fpsym_keys(std::vector<double>(b.begin() + i * d, b.begin() + (i + 1) * d)));
    }
    size_t nrun = 0; for (auto &b : running) nrun += b.size() / d;
    fpsym_check(man.getNumRunning() == nrun, (tag + "getNumRunning() equals the number of points handed out and not completed").c_str());
    size_t listlen = 0; for (auto it = man.running_jobs.begin(); it != man.running_jobs.end(); ++it) listlen++;
    fpsym_check(listlen == nrun, (tag + "the running list holds exactly the running points").c_str());
  }
  fpsym_finish(); return 0;
}

struct Model {
  int d, outs; std::mutex m; std::map<std::vector<double>, int> ids; std::map<std::vector<double>, int> count; std::map<std::vector<double>, std::vector<double>> vals; std::set<std::vector<double>> preloaded;
  std::vector<std::atomic<int>> busy; bool overlap = false; int total = 0; bool symbolic; int latency = 0; int max_tid = -1; std::atomic<int> bad_tid{0};   // max_tid: largest documented thread id (-1: not checked)
  Model(int dims, int o, int threads, bool sym) : d(dims), outs(o), busy(threads + 1), symbolic(sym) { for (auto &b : busy) b = 0; }
  void eval(const double *x, double *y, size_t tid){
    if (max_tid >= 0 && tid > (size_t) max_tid) bad_tid = 1;
    if (tid < busy.size()){ if (busy[tid].fetch_add(1) != 0) overlap = true; }
    std::vector<double> p(x, x + d); int slow = 0;
    { std::lock_guard<std::mutex> lk(m);
      int id; auto it = ids.find(p); if (it == ids.end()){ id = (int) ids.size(); ids[p] = id; } else id = it->second;
      count[p]++; total++;
      std::vector<double> v(outs); for (int k=0;k<outs;k++){ double dv = SymModel::dflt(p, k); v[k] = symbolic ? fpsym_symbolic(dv, 1000 + id * outs + k, -1.0, 1.0) : dv; y[k] = v[k]; }
      vals[p] = v; slow = (latency == 1 && id == 0) ? 30 : ((latency == 2 && id % 2 == 1) ? 8 : 0); }
    if (slow) std::this_thread::sleep_for(std::chrono::milliseconds(slow));   // skewed model latency (outside the lock)
    if (tid < busy.size()) busy[tid].fetch_sub(1);
  }
};

static void final_checks(TasmanianSparseGrid &grid, Model &mod, const char *what){
  int d = grid.getNumDimensions(), outs = grid.getNumOutputs(), n = grid.getNumLoaded();
  std::string w(what);
  bool once = true; for (auto &c : mod.count) if (c.second != 1) once = false;
  fpsym_check(once, (w + ": the model is called at most once per grid point").c_str());
  fpsym_check(!mod.overlap, (w + ": the model is never called concurrently with the same thread id").c_str());
  std::vector<double> lp = grid.getLoadedPoints(); const double *v = grid.getLoadedValues();
  bool all_known = true;
  for (int i=0;i<n;i++){
    std::vector<double> p = pointAt(lp, d, i); auto it = mod.vals.find(p);
    if (it == mod.vals.end()){ all_known = false; continue; }
    for (int k=0;k<outs;k++) fpsym_ident(v[(size_t) i * outs + k], it->second[k], (w + ": the value loaded at a point is the one the model returned for it").c_str());
  }
  fpsym_check(all_known, (w + ": every loaded point was computed by the model").c_str());
  if (n > 0 && (!grid.isLocalPolynomial() || lpParentComplete(grid)) && !grid.isWavelet()){
    std::vector<double> y; grid.evaluateBatch(lp, y);
    for (int i=0;i<n;i++){ if (mod.preloaded.count(pointAt(lp, d, i))) continue; auto &want = mod.vals[pointAt(lp, d, i)]; for (int k=0;k<outs;k++) fpsym_eq(y[(size_t) i * outs + k], want[k], 1.0 + n, (w + ": the final surrogate reproduces the model at the loaded points").c_str()); }
  }
  fpsym_note("model_calls", mod.total); fpsym_note("loaded", n);
}

int main(int argc, char **argv){
  int mode = atoi(argv[1]);
  if (mode == 0) return mode0(argc, argv);
  GridSpec g = parseSpec(argv[2]); int d = g.dims;
  TasmanianSparseGrid grid; makeGrid(grid, g);
  if (mode == 1){
    int parallel = atoi(argv[3]), jobs = atoi(argv[4]), batch = atoi(argv[5]);
    int pre = argc > 7 ? atoi(argv[7]) : 0;   // > 0: the grid is loaded (concrete values) before the call and the budget is pre .. pre+3: the regime of >= 1000 loaded points, where finished samples wait in the side storage
    int budget = pre > 0 ? pre + fpsym_choice(3, 4, 2) : 1 + fpsym_choice(3, 8, 4);   // 1..8 points
    fpsym_note("budget", budget); int preloaded_points = 0;
    Model mod(d, g.outputs, jobs + 1, g.family != "wavelet"); bool bad_y_size = false; mod.latency = argc > 6 ? atoi(argv[6]) : 0;
    if (pre > 0){ std::vector<double> np = grid.getNeededPoints(); size_t nn = np.size() / d; std::vector<double> vv(nn * g.outputs);
      for (size_t i=0;i<nn;i++){ std::vector<double> p(np.begin() + i * d, np.begin() + (i + 1) * d), v(g.outputs); for (int k=0;k<g.outputs;k++){ v[k] = SymModel::dflt(p, k); vv[i * g.outputs + k] = v[k]; } mod.vals[p] = v; mod.preloaded.insert(p); }
      grid.loadNeededValues(vv); fpsym_note("preloaded", (long) nn); preloaded_points = (int) nn; budget += preloaded_points; }   // max_num_points counts the points the grid already holds
    auto model = [&](std::vector<double> const &x, std::vector<double> &y, size_t tid)->void{
      size_t np = x.size() / d;
      // documented contract (no initial guess): on entry y already has one strip of outputs per sample; the model writes in place
      if (y.size() != np * g.outputs){ bad_y_size = true; y.resize(np * g.outputs); }
      if (tid < mod.busy.size()){ if (mod.busy[tid].fetch_add(1) != 0) mod.overlap = true; }
      for (size_t i=0;i<np;i++) mod.eval(&x[i * d], &y[i * g.outputs], 1000000);
      if (tid < mod.busy.size()) mod.busy[tid].fetch_sub(1);
    };
    bool local = grid.isLocalPolynomial() || grid.isWavelet();
    if (parallel){
      if (local) constructSurrogate<mode_parallel>(model, (size_t) budget, (size_t) jobs, (size_t) batch, grid, 0.0, refine_fds, -1, g.ll);
      else constructSurrogate<mode_parallel>(model, (size_t) budget, (size_t) jobs, (size_t) batch, grid, type_level, std::vector<int>(d, 1), g.ll);
    } else {
      if (local) constructSurrogate<mode_sequential>(model, (size_t) budget, (size_t) jobs, (size_t) batch, grid, 0.0, refine_fds, -1, g.ll);
      else constructSurrogate<mode_sequential>(model, (size_t) budget, (size_t) jobs, (size_t) batch, grid, type_level, std::vector<int>(d, 1), g.ll);
    }
    grid.finishConstruction();
    fpsym_check(mod.total <= budget - preloaded_points, "constructSurrogate never launches more than max_num_points samples");
    fpsym_check(!bad_y_size, "the model is called with y of the documented size (samples x outputs), so that every value is stored at its own sample");
    final_checks(grid, mod, parallel ? "parallel constructSurrogate" : "sequential constructSurrogate");
  } else {
    int threads = atoi(argv[3]);
    Model mod(d, g.outputs, threads, g.family != "wavelet"); mod.max_tid = threads > 0 ? threads - 1 : 0; mod.latency = argc > 4 ? atoi(argv[4]) : 0;
    int needed = grid.getNumNeeded();
    auto model = [&](double const x[], double y[], size_t tid)->void{ mod.eval(x, y, tid); };
    if (threads > 0) loadNeededValues<mode_parallel>(model, grid, (size_t) threads); else loadNeededValues<mode_sequential>(model, grid, 1);
    fpsym_check(mod.total == needed && (int) mod.count.size() == needed, "threaded loadNeededValues evaluates every needed point exactly once");
    fpsym_check(grid.getNumLoaded() == needed && grid.getNumNeeded() == 0, "threaded loadNeededValues loads all needed points");
    fpsym_check(mod.bad_tid == 0, "threaded loadNeededValues: every thread id passed to the model lies in [0, num_threads - 1]");
    final_checks(grid, mod, "loadNeededValues addon");
  }
  fpsym_finish(); return 0;
}
