// C03: interpolation is exact on the function space spanned by the grid's basis, at a SYMBOLIC evaluation point x.
// C05 (mode 1): differentiate(x) is the exact gradient of evaluate(x) (the driver differentiates the expression of evaluate).
// optional 3rd arg: history through which the queried grid is reached   0 make + load | 1 make(depth-1), load, updateGrid(depth), load | 2 = 1 then copy | 3 = 1 then binary write/read | 4 dynamic construction from the coarsest grid, the points of the target grid delivered ONE AT A TIME in index order (incremental surplus updates)
// args: <grid spec> <mode>   mode 0: exactness (C03)   mode 1: derivative (C05, arbitrary symbolic values)   mode 2: derivative on the reproduced space (C05 + C03)
#include "tgrid.hpp"
#include <complex>
#include <sstream>

static double domLo(const GridSpec &g, int j){ if (g.transform) return g.ta[j]; return g.family == "fourier" ? 0.0 : -1.0; }
static double domHi(const GridSpec &g, int j){ if (g.transform) return g.tb[j]; return 1.0; }

int main(int argc, char **argv){
  GridSpec g = parseSpec(argv[1]); int mode = atoi(argv[2]); int hist = argc > 3 ? atoi(argv[3]) : 0;
  TasmanianSparseGrid grid; makeGrid(grid, g);
  int d = g.dims, outs = g.outputs, n = grid.getNumPoints();
  std::vector<double> pts = grid.getPoints();
  std::vector<double> x(d);
  for (int j=0;j<d;j++) x[j] = fpsym_symbolic(domLo(g, j) + (0.37 + 0.11 * j) * (domHi(g, j) - domLo(g, j)), 1 + j, domLo(g, j), domHi(g, j));
  fpsym_note("points", n);
  if (mode == 1){
    // arbitrary values: differentiate(x) must be the gradient of the surrogate
    SymModel model(outs, 1000, -1.0, 1.0, g.family != "wavelet");
    grid.loadNeededValues(model.values(grid.getNeededPoints(), d));
    std::vector<double> y, jac; grid.evaluate(x, y); grid.differentiate(x, jac);
    double scale = 2.0 + n;
    for (int k=0;k<outs;k++) for (int j=0;j<d;j++) fpsym_deriv(jac[(size_t) k * d + j], y[k], scale * 8.0 * (1 << std::min(g.depth, 6)), 1 + j, "differentiate(x)[k][j] == d evaluate(x)[k] / d x_j");
    fpsym_nonconst(y[0], "witness: surrogate depends on x and the values");
    fpsym_finish(); return 0;
  }
  std::function<double(const std::vector<double>&)> p; double scale = 1.0; int nfun = 0;
  std::vector<double> coef;
  if (grid.isGlobal() || grid.isSequence()){
    std::vector<int> space = grid.getGlobalPolynomialSpace(true); int M = (int) space.size() / d; nfun = M;
    for (int m=0;m<M;m++) coef.push_back(fpsym_symbolic(0.5 - 0.04 * m, 100 + m, -1.0, 1.0));
    // tolerance scale: magnitude of the monomials over the evaluation box AND over the nodes (rules on unbounded domains have far-out nodes)
    for (int m=0;m<M;m++){ double b = 1.0; for (int j=0;j<d;j++) b *= std::pow(std::max(std::fabs(domLo(g, j)), std::fabs(domHi(g, j))), space[(size_t) m * d + j]);
      for (int i=0;i<n;i++){ double t = 1.0; for (int j=0;j<d;j++) t *= std::pow(std::fabs(pts[(size_t) i * d + j]), space[(size_t) m * d + j]); b = std::max(b, t); }
      scale += b; }
    p = [=](const std::vector<double> &z)->double{ double s = 0; for (int m=0;m<M;m++){ double t = coef[m]; for (int j=0;j<d;j++) t *= std::pow(z[j], space[(size_t) m * d + j]); s += t; } return s; };
  } else if (grid.isFourier()){
    const int *idx = grid.getPointsIndexes(); nfun = 2 * n; std::vector<int> ex((size_t) n * d);
    for (int m=0;m<n;m++) for (int j=0;j<d;j++){ int q = idx[(size_t) m * d + j]; ex[(size_t) m * d + j] = (q % 2 == 0) ? q / 2 : -(q + 1) / 2; }
    for (int m=0;m<2*n;m++) coef.push_back(fpsym_symbolic(0.3 - 0.02 * m, 100 + m, -1.0, 1.0));
    scale += 2.0 * n;
    p = [=](const std::vector<double> &z)->double{
      // modes through cos/sin of 2 pi z_j only (the same atoms the library uses), higher frequencies by complex powers
      std::vector<std::complex<double>> base(d); for (int j=0;j<d;j++){ double th = 2.0 * M_PI * z[j]; base[j] = std::complex<double>(std::cos(th), std::sin(th)); }
      double s = 0;
      for (int m=0;m<n;m++){ std::complex<double> v(1.0, 0.0);
        for (int j=0;j<d;j++){ int e = ex[(size_t) m * d + j]; std::complex<double> b = e >= 0 ? base[j] : std::conj(base[j]); for (int r=0;r<std::abs(e);r++) v *= b; }
        s += coef[2 * m] * v.real() + coef[2 * m + 1] * v.imag(); }
      return s; };
  } else if (grid.isLocalPolynomial()){
    nfun = d + 1; for (int m=0;m<=d;m++) coef.push_back(fpsym_symbolic(0.4 - 0.3 * m, 100 + m, -1.0, 1.0));
    for (int j=0;j<d;j++) scale += std::max(std::fabs(domLo(g, j)), std::fabs(domHi(g, j)));
    p = [=](const std::vector<double> &z)->double{ double s = coef[0]; for (int j=0;j<d;j++) s += coef[j + 1] * z[j]; return s; };
  } else {
    // wavelets: coefficients come from an iterative solver, the affine functions are taken with concrete coefficients (one function per output)
    nfun = outs; p = nullptr; scale += d;
  }
  fpsym_note("test_functions", nfun);
  bool wav = grid.isWavelet();
  auto valsFor = [&](const std::vector<double> &P)->std::vector<double>{
    size_t np = P.size() / d; std::vector<double> v(np * outs);
    for (size_t i=0;i<np;i++){ std::vector<double> z = pointAt(P, d, (int) i);
      for (int k=0;k<outs;k++){
        if (wav) v[i * outs + k] = (k == 0) ? 1.0 : z[(k - 1) % d];
        else v[i * outs + k] = (k == 0) ? p(z) : (k + 1.0) * p(z);   // further outputs: multiples of the same function
      } }
    return v; };
  if (hist == 4 && (grid.isSequence() || grid.isLocalPolynomial())){
    GridSpec g0 = g; g0.depth = 0; TasmanianSparseGrid w; makeGrid(w, g0);
    w.beginConstruction();
    for (int i=0;i<n;i++){ std::vector<double> pt = pointAt(pts, d, i); w.loadConstructedPoints(pt, valsFor(pt)); }
    w.finishConstruction();
    fpsym_check(w.getNumLoaded() == n, "point-by-point construction in index order loads every delivered point");
    grid = std::move(w); pts = grid.getPoints(); n = grid.getNumPoints();
  } else if (hist == 0 || hist == 4 || grid.isLocalPolynomial() || grid.isWavelet() || g.depth == 0) grid.loadNeededValues(valsFor(pts));
  else {
    // the same function space, reached through an update of a coarser loaded grid (and then a copy / a round trip)
    GridSpec g0 = g; g0.depth = g.depth - 1; TasmanianSparseGrid w; makeGrid(w, g0);
    w.loadNeededValues(valsFor(w.getNeededPoints()));
    w.updateGrid(g.depth, IO::getDepthTypeString(g.type), g.aw, g.ll);
    if (w.getNumNeeded() > 0) w.loadNeededValues(valsFor(w.getNeededPoints()));
    if (hist == 2){ TasmanianSparseGrid c; c.copyGrid(&w); grid = std::move(c); }
    else if (hist == 3){ std::stringstream ss(std::ios::in | std::ios::out | std::ios::binary); w.write(ss, true); TasmanianSparseGrid c; c.read(ss, true); grid = std::move(c); }
    else grid = std::move(w);
    pts = grid.getPoints(); n = grid.getNumPoints();   // (non-nested rules keep the points of the coarser grid: the point sets may differ, the declared space may not)
    if (grid.isGlobal() || grid.isSequence()){ TasmanianSparseGrid direct; makeGrid(direct, g); fpsym_check(grid.getGlobalPolynomialSpace(true) == direct.getGlobalPolynomialSpace(true), "the updated grid declares the polynomial space of the grid made directly at that depth"); }
  }
  std::vector<double> vals = valsFor(pts);
  std::vector<double> y; grid.evaluate(x, y);
  std::vector<double> want(outs);
  for (int k=0;k<outs;k++) want[k] = grid.isWavelet() ? ((k == 0) ? 1.0 : x[(k - 1) % d]) : ((k == 0) ? p(x) : (k + 1.0) * p(x));
  if (mode == 0){
    for (int k=0;k<outs;k++) fpsym_eq(y[k], want[k], scale * (k + 1), "evaluate(x) reproduces every function of the basis space at an arbitrary point");
    if (!grid.isWavelet() && !grid.isFourier()){   // Fourier weights at a symbolic x are rational trigonometric expressions: outside the claim
      std::vector<double> w = grid.getInterpolationWeights(x);
      double s = 0, sw = 0; for (int i=0;i<n;i++){ s += w[i] * vals[(size_t) i * outs]; sw += w[i]; }
      fpsym_eq(s, want[0], scale, "interpolation weights reproduce every function of the basis space");
      bool has_constants = !(grid.getRule() == rule_clenshawcurtis0 || grid.getRule() == rule_localp0);
      if (has_constants) fpsym_eq(sw, 1.0, scale, "interpolation weights sum to one");
    }
    if (grid.isFourier()){
      // Fourier weights at a symbolic x are outside the claim; at CONCRETE points with a coordinate exactly on a node, on the boundary of the
      // domain (the periodic image of node 0) or inside, the weights are numbers and must reproduce every mode for all coefficient vectors
      std::vector<std::vector<double>> probes;
      for (int i : {0, n / 2, n - 1}) probes.push_back(pointAt(pts, d, i));                                                             // grid nodes
      { std::vector<double> c(d); for (int j=0;j<d;j++) c[j] = domHi(g, j); probes.push_back(c); for (int j=0;j<d;j++) c[j] = (j % 2) ? domLo(g, j) : domHi(g, j); probes.push_back(c); }   // corners
      { std::vector<double> c = pointAt(pts, d, n - 1); c[0] = domLo(g, 0) + 0.3719 * (domHi(g, 0) - domLo(g, 0)); probes.push_back(c); }    // shares coordinates with a node
      { std::vector<double> c(d); for (int j=0;j<d;j++) c[j] = domLo(g, j) + (0.2113 + 0.17 * j) * (domHi(g, j) - domLo(g, j)); probes.push_back(c); }   // interior
      for (double f : {0.5, 1.0 / 6.0, 5.0 / 6.0}){ std::vector<double> c(d); for (int j=0;j<d;j++) c[j] = domLo(g, j) + (j == 0 ? f : 0.5) * (domHi(g, j) - domLo(g, j)); probes.push_back(c); }   // half a period from a node
      for (auto &c : probes){
        std::vector<double> w = grid.getInterpolationWeights(c);
        double s = 0, sw = 0; for (int i=0;i<n;i++){ s += w[i] * vals[(size_t) i * outs]; sw += w[i]; }
        fpsym_eq(s, p(c), scale, "fourier: interpolation weights at nodes / boundary / interior points reproduce every mode of the grid");
        fpsym_eq(sw, 1.0, scale, "fourier: interpolation weights sum to one");
      }
    }
  } else {
    // derivative of a reproduced function: differentiate(x) must equal the exact derivative of the test function itself
    std::vector<double> jac; grid.differentiate(x, jac);
    for (int k=0;k<outs;k++) for (int j=0;j<d;j++) fpsym_deriv(jac[(size_t) k * d + j], want[k], scale * (k + 1) * 8.0 * (1 << std::min(g.depth, 6)), 1 + j, "differentiate(x) is exact for members of the reproduced function space");
  }
  fpsym_nonconst(y[grid.isWavelet() ? 1 : 0], "witness: surrogate depends on x");
  fpsym_finish(); return 0;
}
