// C09: dynamic construction does not depend on arrival order or batching of samples.
// args: <grid spec> <finish>   finish: 1 = compare after finishConstruction() as well
// The target set is the point set of the grid described by the spec (lower-complete / hierarchy-complete); every sample of it is
// delivered through loadConstructedPoints in an order given by symbolic priorities and with batch boundaries given by symbolic flags.
#include "tgrid.hpp"
#include <algorithm>

static bool samePoint(const double *a, const double *b, int d){ for (int j=0;j<d;j++) if (std::fabs(a[j] - b[j]) > 1e-12) return false; return true; }

int main(int argc, char **argv){
  GridSpec g = parseSpec(argv[1]); int finish = atoi(argv[2]); int pseed = argc > 3 ? atoi(argv[3]) : 0; int cutmode = argc > 4 ? atoi(argv[4]) : 0;   // cutmode 1: every sample is its own delivery (only the order is symbolic)   // pseed picks the root permutation of the exploration
  int d = g.dims, outs = g.outputs;
  TasmanianSparseGrid ref; makeGrid(ref, g);
  std::vector<double> target = ref.getPoints(); int N = ref.getNumPoints();
  parseVScale(argc, argv);
  SymModel model(outs, 1000, -1.0, 1.0, g.family != "wavelet");
  ref.loadNeededValues(model.values(target, d));               // the one-batch load
  fpsym_note("target_points", N);
  // arrival order: sort by symbolic priorities (insertion sort: its comparisons are the path classes = permutations)
  std::vector<double> prio(N); for (int i=0;i<N;i++) prio[i] = fpsym_symbolic(std::fmod(0.6180339887 * (i + 1) * (1 + pseed) + 0.137 * pseed * ((i * 7 + 3) % 5), 1.0), 10 + i, 0.0, 1.0);
  std::vector<int> order(N); for (int i=0;i<N;i++) order[i] = i;
  for (int i=1;i<N;i++){ int k = i; while (k > 0 && prio[order[k]] < prio[order[k-1]]){ std::swap(order[k], order[k-1]); k--; } }
  // history class of a recorded finding (Global / Fourier): some sample arrives before a sample that belongs to a strictly lower tensor
  std::string hist = "";
  if (g.family == "global" || g.family == "fourier"){
    const int *idx = ref.getPointsIndexes(); TypeOneDRule rule = ref.getRule();
    auto levelOf = [&](int i)->int{ int l = 0; while (OneDimensionalMeta::getNumPoints(l, rule) <= i) l++; return l; };
    bool nonmono = false;
    for (int t1=0;t1<N;t1++) for (int t2=t1+1;t2<N;t2++){
      bool le = true, eq = true;
      for (int j=0;j<d;j++){ int a = levelOf(idx[(size_t) order[t2] * d + j]), b = levelOf(idx[(size_t) order[t1] * d + j]); if (a > b) le = false; if (a != b) eq = false; }
      if (le && !eq) nonmono = true;
    }
    if (nonmono) hist = " [history: a sample arrived before a sample of a strictly lower tensor]";
  }
  // the grid under construction starts as the coarsest grid of the same family and then receives the target samples
  GridSpec g0 = g; g0.depth = 0; if (g.family == "localp" || g.family == "wavelet") g0.depth = 0;
  TasmanianSparseGrid grid; makeGrid(grid, g0);
  grid.beginConstruction();
  std::vector<double> bx, by; int delivered = 0;
  for (int t=0;t<N;t++){
    int i = order[t];
    bx.insert(bx.end(), target.begin() + (size_t) i * d, target.begin() + (size_t) (i + 1) * d);
    const std::vector<double> &v = model.at(pointAt(target, d, i)); by.insert(by.end(), v.begin(), v.end());
    bool cut = (t == N - 1) || cutmode == 1 || fpsym_flag(200 + t, (t % 3) == 1);
    if (!cut) continue;
    grid.loadConstructedPoints(bx, by); delivered += (int) bx.size() / d; bx.clear(); by.clear();
    fpsym_check(grid.isUsingConstruction(), "construction stays active between deliveries");
    fpsym_check(grid.getNumLoaded() <= delivered, "no more points loaded than samples delivered");
    // candidate lists never contain a point that is already loaded
    std::vector<double> cand = (grid.isLocalPolynomial() || grid.isWavelet()) ? grid.getCandidateConstructionPoints(0.0, refine_fds, -1, g.ll) : grid.getCandidateConstructionPoints(type_iptotal, 0, g.ll);
    std::vector<double> lp = grid.getLoadedPoints(); int nl = grid.getNumLoaded(); bool clash = false;
    for (size_t c=0;c<cand.size()/d;c++) for (int l=0;l<nl;l++) if (samePoint(&cand[c * d], &lp[(size_t) l * d], d)) clash = true;
    fpsym_check(!clash, "candidate list contains no point that is already loaded");
  }
  for (int stage = 0; stage < 1 + finish; stage++){
    if (stage == 1) grid.finishConstruction();
    const char *st = stage == 0 ? "after the last delivery" : "after finishConstruction";
    int nl = grid.getNumLoaded(); std::vector<double> lp = grid.getLoadedPoints();
    fpsym_note(stage == 0 ? "loaded_after_last_delivery" : "loaded_after_finish", nl);
    fpsym_check(nl == N, (std::string(st) + ": the grid holds exactly the points of the target set (count)" + hist).c_str());
    bool all_found = true;
    const double *vals = grid.getLoadedValues();
    for (int l=0;l<nl;l++){
      int hit = -1; for (int i=0;i<N;i++) if (samePoint(&lp[(size_t) l * d], &target[(size_t) i * d], d)) hit = i;
      if (hit < 0){ all_found = false; continue; }
      const std::vector<double> &v = model.at(pointAt(target, d, hit));
      for (int k=0;k<outs;k++) fpsym_ident(vals[(size_t) l * outs + k], v[k], (std::string(st) + ": stored value is the one supplied for these coordinates").c_str());
    }
    fpsym_check(all_found, (std::string(st) + ": every loaded point belongs to the target set").c_str());
    if (nl != N) continue;
    // surrogate equals the one-batch surrogate (probe points: all target points and two off-grid points)
    std::vector<double> probes = target;
    for (int p=0;p<2;p++) for (int j=0;j<d;j++){ double lo = g.transform ? g.ta[j] : (g.family == "fourier" ? 0.0 : -1.0), hi = g.transform ? g.tb[j] : 1.0; probes.push_back(lo + (0.29 + 0.33 * p + 0.07 * j) * (hi - lo)); }
    std::vector<double> y1, y2; grid.evaluateBatch(probes, y1); ref.evaluateBatch(probes, y2);
    for (size_t i=0;i<y1.size();i++) fpsym_eq(y1[i], y2[i], (2.0 + N) * g_vscale, (std::string(st) + ": surrogate equals the one-batch surrogate").c_str());
    if (grid.getNumOutputs() > 0 && model.symbolic) fpsym_nonconst(y1[0], "witness: surrogate depends on the supplied values");
  }
  fpsym_finish(); return 0;
}
