"""Build support: everything is regenerated from /repo's current working tree, cached by content hash
under /verif/build (nothing under /tmp)."""
import hashlib, os, subprocess, sys, shutil, fcntl, time, glob, json
from concurrent.futures import ThreadPoolExecutor

VERIF = os.path.dirname(os.path.dirname(os.path.abspath(__file__)))
REPO = os.environ.get('VERIF_REPO', '/repo')
BUILD = os.path.join(VERIF, 'build')
ENG = os.path.join(VERIF, 'engines')
CLANGXX = 'clang++-14'
JOBS = int(os.environ.get('VERIF_JOBS', '16'))

LIB_TUS = ['SparseGrids/' + s + '.cpp' for s in (
    'TasmanianSparseGrid tsgAcceleratedDataStructures tsgCoreOneDimensional tsgDConstructGridGlobal '
    'tsgGridGlobal tsgGridWavelet tsgHardCodedTabulatedRules tsgGridLocalPolynomial tsgGridSequence tsgGridFourier '
    'tsgIndexManipulator tsgHierarchyManipulator tsgIndexSets tsgLinearSolvers tsgRuleWavelet tsgSequenceOptimizer').split()] + [
    'InterfaceTPL/tsgGpuNull.cpp', 'DREAM/tsgDreamState.cpp', 'DREAM/tsgDreamLikelyGaussian.cpp', 'DREAM/tsgDreamSampleWrapC.cpp',
    'DREAM/Optimization/tsgGradientDescent.cpp', 'DREAM/Optimization/tsgParticleSwarm.cpp']
SRC_DIRS = ['SparseGrids', 'DREAM', 'DREAM/Optimization', 'Addons', 'InterfaceTPL', 'Config']


def sh(cmd, **kw):
    r = subprocess.run(cmd, shell=isinstance(cmd, str), capture_output=True, text=True, **kw)
    if r.returncode != 0:
        raise RuntimeError('command failed (%d): %s\n%s\n%s' % (r.returncode, cmd if isinstance(cmd, str) else ' '.join(cmd), r.stdout[-4000:], r.stderr[-4000:]))
    return r


class Lock:
    def __init__(self, name):
        os.makedirs(BUILD, exist_ok=True)
        self.path = os.path.join(BUILD, name + '.lock')
    def __enter__(self):
        self.f = open(self.path, 'w'); fcntl.flock(self.f, fcntl.LOCK_EX); return self
    def __exit__(self, *a):
        fcntl.flock(self.f, fcntl.LOCK_UN); self.f.close()


def file_hash(paths, extra=''):
    h = hashlib.sha256(extra.encode())
    for p in sorted(paths):
        h.update(p.encode())
        with open(p, 'rb') as f:
            h.update(f.read())
    return h.hexdigest()[:16]


def repo_sources():
    out = []
    for d in SRC_DIRS:
        for ext in ('*.cpp', '*.hpp', '*.h'):
            out += glob.glob(os.path.join(REPO, d, ext))
    return out


def configured_dir():
    """TasmanianConfig.hpp as cmake would generate it for the pinned option set (all TPLs off)."""
    d = os.path.join(BUILD, 'configured'); os.makedirs(d, exist_ok=True)
    src = open(os.path.join(REPO, 'Config', 'TasmanianConfig.in.hpp')).read()
    import re
    src = re.sub(r'#cmakedefine (\w+)', r'/* #undef \1 */', src)
    rep = {'Tasmanian_VERSION_MAJOR': '8', 'Tasmanian_VERSION_MINOR': '2', 'Tasmanian_version_comment': ' (verif)',
           'Tasmanian_license': 'BSD 3-Clause with UT-Battelle disclaimer', 'Tasmanian_git_hash': 'verif', 'Tasmanian_cxx_flags': 'verif'}
    try:
        cm = open(os.path.join(REPO, 'CMakeLists.txt')).read()
        m = re.search(r'project\(\s*Tasmanian\s+VERSION\s+(\d+)\.(\d+)', cm)
        if m: rep['Tasmanian_VERSION_MAJOR'], rep['Tasmanian_VERSION_MINOR'] = m.group(1), m.group(2)
    except Exception:
        pass
    for k, v in rep.items(): src = src.replace('@%s@' % k, v)
    p = os.path.join(d, 'TasmanianConfig.hpp')
    if not os.path.exists(p) or open(p).read() != src:
        open(p, 'w').write(src)
    return d


def cxxflags(asan=True):
    inc = ' '.join('-I%s/%s' % (REPO, d) for d in SRC_DIRS)
    return ('%s -std=c++14 -O0 -DNDEBUG -ffp-contract=off -fno-vectorize -fno-slp-vectorize %s -I%s -I%s/fpsym ' % (
        '-fsanitize=address -fno-omit-frame-pointer' if asan else '', inc, configured_dir(), ENG))


def ensure_engines():
    os.makedirs(BUILD, exist_ok=True)
    with Lock('engines'):
        instr = os.path.join(BUILD, 'instr'); src = os.path.join(ENG, 'fpsym', 'instr.cpp')
        key = file_hash([src])
        if not os.path.exists(instr) or open(instr + '.key').read() != key:
            sh('%s -O1 %s $(llvm-config-14 --cxxflags --ldflags --libs) -o %s' % (CLANGXX, src, instr))
            open(instr + '.key', 'w').write(key)
        rt = os.path.join(BUILD, 'rt.o'); src = os.path.join(ENG, 'fpsym', 'rt.cpp')
        key = file_hash([src])
        if not os.path.exists(rt) or open(rt + '.key').read() != key:
            sh('%s -O1 -std=c++14 -c %s -o %s' % (CLANGXX, src, rt))
            open(rt + '.key', 'w').write(key)
        i2c = os.path.join(BUILD, 'ir2c'); src = os.path.join(ENG, 'ir2c', 'ir2c.cpp')
        if os.path.exists(src):
            key = file_hash([src])
            if not os.path.exists(i2c) or open(i2c + '.key').read() != key:
                sh('%s -O1 %s $(llvm-config-14 --cxxflags --ldflags --libs) -o %s' % (CLANGXX, src, i2c))
                open(i2c + '.key', 'w').write(key)
    return True


def _to_bc(src, outdir, flags, name=None):
    base = name or os.path.basename(src)[:-4]
    bc = os.path.join(outdir, base + '.bc')
    sh('%s %s -c -emit-llvm %s -o %s' % (CLANGXX, flags, src, bc))
    r = sh('llvm-nm-14 --defined-only -j %s' % bc)
    return base, [l.strip() for l in r.stdout.splitlines() if l.strip()]


def _from_bc(base, outdir, defined):
    """bitcode -> (plain object, instrumented object)"""
    bc = os.path.join(outdir, base + '.bc')
    sh('%s -O0 -c %s -o %s' % (CLANGXX, bc, os.path.join(outdir, base + '.plain.o')))
    sh('opt-14 -break-crit-edges %s -o %s.1' % (bc, bc))
    sh('%s %s.1 %s.2 %s' % (os.path.join(BUILD, 'instr'), bc, bc, defined))
    sh('%s -O1 -c -x ir %s.2 -o %s' % (CLANGXX, bc, os.path.join(outdir, base + '.instr.o')))
    for f in (bc + '.1', bc + '.2', bc):
        try: os.remove(f)
        except OSError: pass
    return base


def ensure_lib():
    """instrumented + plain static libraries of the sparse-grid, DREAM and optimisation sources"""
    ensure_engines()
    flags = cxxflags()
    key = file_hash(repo_sources() + [os.path.join(ENG, 'fpsym', 'instr.cpp')], flags + ' ' + ' '.join(LIB_TUS))
    d = os.path.join(BUILD, 'lib-' + key)
    with Lock('lib'):
        if os.path.exists(os.path.join(d, 'ok')):
            os.utime(os.path.join(d, 'ok'))
            return d, key
        # drop older library builds (disk is limited), keep the newest one besides this
        olds = sorted(glob.glob(os.path.join(BUILD, 'lib-*')), key=lambda p: os.path.getmtime(os.path.join(p, 'ok')) if os.path.exists(os.path.join(p, 'ok')) else 0)
        for o in olds[:-1]:
            shutil.rmtree(o, ignore_errors=True)
        for o in glob.glob(os.path.join(BUILD, 'h-*')):
            try:
                if time.time() - os.path.getmtime(o) > 6 * 3600: shutil.rmtree(o, ignore_errors=True)
            except OSError: pass
        shutil.rmtree(d, ignore_errors=True); os.makedirs(d)
        t0 = time.time()
        with ThreadPoolExecutor(JOBS) as ex:
            futs = [ex.submit(_to_bc, os.path.join(REPO, tu), d, flags) for tu in LIB_TUS]
            rs = [f.result() for f in futs]
            bases = [r[0] for r in rs]
            defined = os.path.join(d, 'defined.txt')
            open(defined, 'w').write('\n'.join(sorted(set(n for r in rs for n in r[1]))) + '\n')
            futs = [ex.submit(_from_bc, b, d, defined) for b in bases]
            [f.result() for f in futs]
        sh('ar rcs %s %s' % (os.path.join(d, 'libplain.a'), ' '.join(os.path.join(d, b + '.plain.o') for b in bases)))
        sh('ar rcs %s %s' % (os.path.join(d, 'libinstr.a'), ' '.join(os.path.join(d, b + '.instr.o') for b in bases)))
        for b in bases:
            os.remove(os.path.join(d, b + '.plain.o')); os.remove(os.path.join(d, b + '.instr.o'))
        open(os.path.join(d, 'ok'), 'w').write('%.1f' % (time.time() - t0))
    return d, key


def ensure_harness(name, defines=''):
    """builds /verif/harness/<name>.cpp twice (instrumented, plain); returns (instr_exe, plain_exe, build info)"""
    libdir, libkey = ensure_lib()
    src = os.path.join(VERIF, 'harness', name + '.cpp')
    hdrs = glob.glob(os.path.join(VERIF, 'harness', '*.hpp')) + [os.path.join(ENG, 'fpsym', 'fpsym.h'), os.path.join(ENG, 'fpsym', 'rt.cpp')]
    key = file_hash([src] + hdrs, libkey + defines)
    d = os.path.join(BUILD, 'h-%s-%s' % (name, key))
    with Lock('h-' + name):
        if not os.path.exists(os.path.join(d, 'ok')):
            for o in glob.glob(os.path.join(BUILD, 'h-%s-*' % name)):
                # older builds of this harness may still be in use by a concurrent run: only drop stale ones
                try:
                    if time.time() - os.path.getmtime(o) > 1800: shutil.rmtree(o, ignore_errors=True)
                except OSError: pass
            shutil.rmtree(d, ignore_errors=True)
            os.makedirs(d)
            flags = cxxflags() + ' -I%s/harness %s' % (VERIF, defines)
            _to_bc(src, d, flags, name='h')
            _from_bc('h', d, os.path.join(libdir, 'defined.txt'))
            rt = os.path.join(BUILD, 'rt.o')
            sh('%s -fsanitize=address %s/h.instr.o %s %s/libinstr.a -o %s/instr -lm -lpthread' % (CLANGXX, d, rt, libdir, d))
            sh('%s -fsanitize=address %s/h.plain.o %s %s/libplain.a -o %s/plain -lm -lpthread' % (CLANGXX, d, rt, libdir, d))
            open(os.path.join(d, 'ok'), 'w').write('1')
    return os.path.join(d, 'instr'), os.path.join(d, 'plain'), {'lib_key': libkey, 'harness_key': key}


if __name__ == '__main__':
    t = time.time(); ensure_engines(); print('engines', round(time.time() - t, 1))
    t = time.time(); print(ensure_lib(), round(time.time() - t, 1))
