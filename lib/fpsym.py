"""Engine B driver: loads the record of one shadow-symbolic run (expression DAG, path condition, obligations),
normalises expressions to exact sparse (Laurent) polynomials over Q, and lets z3 decide every obligation for
all inputs of the path class; explores path classes until the solver certifies that the input box is covered."""
import json, os, subprocess, time, math, tempfile, shutil, hashlib
from fractions import Fraction
import z3

TOL = 1e-9
OP_CONST, OP_SYM, OP_ADD, OP_SUB, OP_MUL, OP_DIV, OP_REM, OP_NEG = 0, 1, 11, 12, 13, 14, 15, 50
MATH = {1: 'fabs', 2: 'sqrt', 3: 'cos', 4: 'sin', 5: 'exp', 6: 'log', 7: 'floor', 8: 'ceil', 9: 'lgamma', 10: 'tgamma', 11: 'acos',
        12: 'asin', 13: 'atan', 14: 'tan', 15: 'log2', 16: 'log10', 17: 'cosh', 18: 'sinh', 19: 'tanh', 20: 'round', 21: 'trunc',
        22: 'rint', 23: 'exp2', 24: 'erf', 25: 'erfc', 26: 'expm1', 27: 'log1p', 28: 'cbrt', 100: 'pow', 101: 'atan2', 102: 'fmod',
        103: 'fmax', 104: 'fmin', 105: 'copysign', 106: 'hypot'}
MAXMONO = int(os.environ.get('FPSYM_MAXMONO', '60000'))


class TooBig(Exception):
    pass


class Inconclusive(Exception):
    pass


class NonFinite(Inconclusive):
    pass


def Q(h):
    v = float.fromhex(h)
    if v != v or v in (float('inf'), float('-inf')): raise NonFinite('non-finite constant in the expression DAG')
    return Fraction(v)


def fr(x):
    return Fraction(x)


# ---------------------------------------------------------------- polynomials: dict {monomial: Fraction}
# monomial: tuple of (var, exp) sorted by var; var: ('s', id) for symbols, ('a', k) for opaque atoms

def padd(A, B, s=1):
    if len(A) < len(B) and s == 1:
        A, B = B, A
    R = dict(A)
    for m, c in B.items():
        v = R.get(m, 0) + (c if s == 1 else -c)
        if v == 0:
            R.pop(m, None)
        else:
            R[m] = v
    return R


def mmul(m1, m2, sg=1):
    if not m1 and sg == 1: return m2
    if not m2: return m1
    dd = dict(m1)
    for s, e in m2:
        v = dd.get(s, 0) + sg * e
        if v == 0:
            dd.pop(s, None)
        else:
            dd[s] = v
    return tuple(sorted(dd.items()))


def pmul(A, B):
    if len(A) > len(B): A, B = B, A
    R = {}
    if len(A) == 1 and () in A:   # scalar
        c1 = A[()]
        return {m: c1 * c for m, c in B.items()}
    for m1, c1 in A.items():
        for m2, c2 in B.items():
            m = mmul(m1, m2); v = R.get(m, 0) + c1 * c2
            if v == 0:
                R.pop(m, None)
            else:
                R[m] = v
    return R


def pscale(A, c):
    if c == 0: return {}
    return {m: v * c for m, v in A.items()}


def pconst(c):
    return {(): c} if c != 0 else {}


def is_const(P):
    return all(m == () for m in P)


def is_affine(P):
    for m in P:
        if len(m) > 1 or (len(m) == 1 and (m[0][1] != 1 or m[0][0][0] != 's')):
            return False
    return True


def pvars(P):
    s = set()
    for m in P:
        for v, e in m: s.add(v)
    return s


def pdegree(P):
    return max([sum(abs(e) for _, e in m) for m in P] + [0])


class Record:
    """one run of an instrumented (or plain) harness"""
    def __init__(self, d):
        self.d = d
        self.status = d['status']
        self.nodes = {n[0]: n for n in d['nodes']}
        self.order = [n[0] for n in d['nodes']]
        self.syms = {s[0]: (float.fromhex(s[1]), float.fromhex(s[2]), float.fromhex(s[3]), s[4]) for s in d['syms']}
        self.pc = d['pc']
        self.obl = d['obl']
        self.checks = d['checks']
        self.outs = d['outs']
        self.notes = d['notes']
        self.P = {}
        self.atoms = []        # list of (kind, data) for opaque atoms; index = atom number
        self.atom_key = {}
        self.val = {n[0]: float.fromhex(n[4]) for n in d['nodes']}

    def inputs(self):
        return {i: v[2] for i, v in self.syms.items()}

    # ---- normal forms
    def atom(self, key, kind, data):
        if key in self.atom_key: return self.atom_key[key]
        k = len(self.atoms); self.atoms.append((kind, data)); self.atom_key[key] = k
        return k

    def pkey(self, P):
        return tuple(sorted(P.items()))

    def nf(self, i):
        """normal form of node i (iterative, memoised)"""
        if i == 0: raise ValueError('concrete operand has no node')
        P = self.P
        if i in P: return P[i]
        st = [i]
        while st:
            j = st[-1]
            if j in P: st.pop(); continue
            n = self.nodes[j]; op, a, b = n[1], n[2], n[3]
            need = []
            if op >= 10:
                if a and a not in P: need.append(a)
                if b and b not in P and (op in (OP_ADD, OP_SUB, OP_MUL, OP_DIV, OP_REM) or op >= 200): need.append(b)
            if need: st.extend(need); continue
            st.pop()
            P[j] = self._nf1(j, op, a, b, n[4])
        return P[i]

    def _nf1(self, j, op, a, b, c):
        P = self.P
        if op == OP_CONST: return pconst(Q(c))
        if op == OP_SYM: return {((('s', a), 1),): Fraction(1)}
        if op == OP_ADD: return padd(P[a], P[b])
        if op == OP_SUB: return padd(P[a], P[b], -1)
        if op == OP_MUL:
            if len(P[a]) * len(P[b]) > MAXMONO: raise TooBig('product of %d x %d monomials' % (len(P[a]), len(P[b])))
            return pmul(P[a], P[b])
        if op == OP_DIV:
            B = P[b]
            if len(B) == 1:
                (mb, cb), = B.items()
                return {mmul(m, mb, -1): cc / cb for m, cc in P[a].items()}
            k = self.atom(('div', self.pkey(P[a]), self.pkey(B)), 'div', (P[a], B))
            return {((('a', k), 1),): Fraction(1)}
        if op == OP_NEG: return pscale(P[a], -1)
        if op == OP_REM:
            k = self.atom(('rem', self.pkey(P[a]), self.pkey(P[b])), 'uf', ('fmod', (P[a], P[b])))
            return {((('a', k), 1),): Fraction(1)}
        if op >= 100:
            f = MATH.get(op - 100, 'f%d' % (op - 100))
            if f in ('pow', 'sqrt'):
                # power of a single positive monomial with a rational exponent that keeps all exponents integral: stays a (Laurent) monomial
                Bq = P[b] if f == 'pow' else pconst(Fraction(1, 2))
                if is_const(Bq) and len(P[a]) == 1:
                    (ma, ca), = P[a].items(); e = Bq.get((), Fraction(0))
                    pos = ca > 0 and all(v[0] == 's' and self.syms[v[1]][0] >= 0 for v, _ in ma)
                    if pos and e.denominator <= 4 and all((ex * e).denominator == 1 for _, ex in ma):
                        root = None
                        if e.denominator == 1 and abs(e) <= 64: root = ca ** int(e)
                        else:
                            num, den = ca.numerator, ca.denominator
                            rn, rd = round(num ** (1.0 / e.denominator)), round(den ** (1.0 / e.denominator))
                            if rn ** e.denominator == num and rd ** e.denominator == den: root = Fraction(rn, rd) ** int(e.numerator)
                        if root is not None:
                            return {tuple((v, int(ex * e)) for v, ex in ma if int(ex * e) != 0): root}
            if f == 'pow':
                B = P[b]
                if is_const(B):
                    e = B.get((), Fraction(0))
                    if e.denominator == 1 and 0 <= e <= 64:
                        R = pconst(Fraction(1))
                        for _ in range(int(e)): R = pmul(R, P[a])
                        return R
                    if e.denominator == 1 and -64 <= e < 0 and len(P[a]) == 1:
                        (ma, ca), = P[a].items(); n = int(-e)
                        return {tuple((v, -ex * n) for v, ex in ma): 1 / ca ** n}
                k = self.atom(('pow', self.pkey(P[a]), self.pkey(B)), 'uf', ('pow', (P[a], B)))
                return {((('a', k), 1),): Fraction(1)}
            if is_const(P[a]) and (op - 100) < 100:
                # function of a constant expression: concrete result
                return pconst(Q(c))
            if f in ('fabs', 'sqrt', 'floor', 'ceil', 'trunc', 'round', 'rint'):
                k = self.atom((f, self.pkey(P[a])), f, P[a])
            elif f in ('hypot', 'fmax', 'fmin'):
                k = self.atom((f, self.pkey(P[a]), self.pkey(P[b])), f, (P[a], P[b]))
            elif op - 100 >= 100:
                k = self.atom((f, self.pkey(P[a]), self.pkey(P[b])), 'uf', (f, (P[a], P[b])))
            elif f in ('cos', 'sin'):
                # canonical sign of the argument: cos(-a) = cos(a), sin(-a) = -sin(a)
                Pa = P[a]; lead = sorted(Pa.items())[0][1] if Pa else 0
                sg = 1
                if lead < 0: Pa = pscale(Pa, -1); sg = -1 if f == 'sin' else 1
                k = self.atom((f, self.pkey(Pa)), 'uf', (f, (Pa,)))
                return {((('a', k), 1),): Fraction(sg)}
            else:
                k = self.atom((f, self.pkey(P[a])), 'uf', (f, (P[a],)))
            return {((('a', k), 1),): Fraction(1)}
        raise Inconclusive('unknown node op %d' % op)

    # ---- exact differentiation of a normal form with respect to a symbol
    def pdiff(self, P, var):
        R = {}
        for m, c in P.items():
            for idx, (v, e) in enumerate(m):
                if v == var:
                    dv = pconst(Fraction(1))
                elif v[0] == 'a':
                    dv = self.atom_diff(v[1], var)
                    if not dv: continue
                else:
                    continue
                rest = list(m); 
                if e == 1: rest.pop(idx)
                else: rest[idx] = (v, e - 1)
                term = pmul({tuple(rest): c * e}, dv)
                R = padd(R, term)
        return R

    def atom_diff(self, k, var):
        kind, data = self.atoms[k]
        q = {((('a', k), 1),): Fraction(1)}
        if kind == 'uf' and data[0] in ('cos', 'sin') and len(data[1]) == 1:
            Pa = data[1][0]; dPa = self.pdiff(Pa, var)
            if not dPa: return {}
            if data[0] == 'cos':
                ks = self.atom(('sin', self.pkey(Pa)), 'uf', ('sin', (Pa,))); return pmul({((('a', ks), 1),): Fraction(-1)}, dPa)
            kc = self.atom(('cos', self.pkey(Pa)), 'uf', ('cos', (Pa,))); return pmul({((('a', kc), 1),): Fraction(1)}, dPa)
        if kind == 'div':
            num, den = data; dn, dd = self.pdiff(num, var), self.pdiff(den, var)
            if not dn and not dd: return {}
            top = padd(dn, pmul(q, dd), -1)
            if len(den) == 1:
                (mb, cb), = den.items(); return {mmul(m, mb, -1): c / cb for m, c in top.items()}
            kk = self.atom(('div', self.pkey(top), self.pkey(den)), 'div', (top, den)); return {((('a', kk), 1),): Fraction(1)}
        if kind == 'sqrt':
            da = self.pdiff(data, var)
            if not da: return {}
            den = pscale(q, 2); kk = self.atom(('div', self.pkey(da), self.pkey(den)), 'div', (da, den)); return {((('a', kk), 1),): Fraction(1)}
        # atoms whose argument does not depend on var have zero derivative
        def depends(Pp):
            for m in Pp:
                for v, e in m:
                    if v == var: return True
                    if v[0] == 'a' and self.atom_depends(v[1], var): return True
            return False
        args = data[1] if kind == 'uf' else (list(data) if isinstance(data, tuple) else [data])
        if not any(depends(x) for x in args): return {}
        raise Inconclusive('cannot differentiate atom of kind %s' % kind)

    def atom_depends(self, k, var):
        kind, data = self.atoms[k]
        args = data[1] if kind == 'uf' else (list(data) if isinstance(data, tuple) else [data])
        for Pp in args:
            for m in Pp:
                for v, e in m:
                    if v == var: return True
                    if v[0] == 'a' and v[1] != k and self.atom_depends(v[1], var): return True
        return False

    def trig_reduce(self, P):
        """reduce modulo sin(a)^2 = 1 - cos(a)^2 for every argument a whose cos and sin atoms both occur"""
        pairs = {}
        for k, (kind, data) in enumerate(self.atoms):
            if kind == 'uf' and data[0] in ('cos', 'sin') and len(data[1]) == 1:
                pairs.setdefault(self.pkey(data[1][0]), {})[data[0]] = k
        todo = [(d['sin'], d.get('cos')) for d in pairs.values() if 'sin' in d]
        for ks, kc in todo:
            vs = ('a', ks)
            changed = True
            while changed:
                changed = False; R = {}
                for m, c in P.items():
                    e = dict(m).get(vs, 0)
                    if e >= 2:
                        if kc is None:
                            Pa = self.atoms[ks][1][1][0]; kc = self.atom(('cos', self.pkey(Pa)), 'uf', ('cos', (Pa,)))
                        changed = True
                        rest = tuple((v, x) for v, x in m if v != vs) + (((vs, e - 2),) if e > 2 else ())
                        rest = tuple(sorted(rest))
                        R = padd(R, {rest: c})
                        R = padd(R, {mmul(rest, ((('a', kc), 2),)): -c})
                    else:
                        R = padd(R, {m: c})
                P = R
        return P


_ctx_counter = [0]


class Ctx:
    """z3 side for one record: variables, box, path condition, atom definitions"""
    def __init__(self, rec, shared_vars=None):
        self.rec = rec
        _ctx_counter[0] += 1; self.uid = _ctx_counter[0]
        self.V = shared_vars if shared_vars is not None else {}
        self.atomv = {}
        self.defs = []         # defining constraints of opaque atoms used so far
        self.ufs = {}
        self._def_done = set()

    def sym(self, i):
        if i not in self.V: self.V[i] = z3.Real('s%d' % i)
        return self.V[i]

    def var(self, v):
        if v[0] == 's': return self.sym(v[1])
        k = v[1]
        if k not in self.atomv:
            self.atomv[k] = z3.Real('a%d_%d' % (self.uid, k))
        if k not in self._def_done:
            self._def_done.add(k)
            self._define(k)
        return self.atomv[k]

    def _define(self, k):
        kind, data = self.rec.atoms[k]; q = self.atomv[k]
        if kind == 'div':
            num, den = data; zn, zd = self.term(num), self.term(den)
            self.defs.append(z3.Implies(zd != 0, q * zd == zn))
        elif kind == 'fabs':
            za = self.term(data); self.defs.append(q == z3.If(za >= 0, za, -za))
        elif kind == 'sqrt':
            za = self.term(data); self.defs.append(z3.And(q >= 0, z3.Implies(za >= 0, q * q == za)))
        elif kind in ('floor',):
            za = self.term(data); self.defs.append(q == z3.ToReal(z3.ToInt(za)))
        elif kind in ('ceil',):
            za = self.term(data); self.defs.append(q == -z3.ToReal(z3.ToInt(-za)))
        elif kind in ('trunc',):
            za = self.term(data); self.defs.append(q == z3.If(za >= 0, z3.ToReal(z3.ToInt(za)), -z3.ToReal(z3.ToInt(-za))))
        elif kind in ('round', 'rint'):
            za = self.term(data); self.defs.append(z3.And(q - za <= 0.5, za - q <= 0.5, q == z3.ToReal(z3.ToInt(q))))
        elif kind == 'hypot':
            za, zb = self.term(data[0]), self.term(data[1]); self.defs.append(z3.And(q >= 0, q * q == za * za + zb * zb))
        elif kind == 'fmax':
            za, zb = self.term(data[0]), self.term(data[1]); self.defs.append(q == z3.If(za >= zb, za, zb))
        elif kind == 'fmin':
            za, zb = self.term(data[0]), self.term(data[1]); self.defs.append(q == z3.If(za <= zb, za, zb))
        elif kind == 'uf':
            f, args = data
            key = (f, len(args))
            if key not in self.ufs:
                self.ufs[key] = z3.Function('uf_' + f, *([z3.RealSort()] * (len(args) + 1)))
            self.defs.append(q == self.ufs[key](*[self.term(a) for a in args]))
        else:
            raise Inconclusive('atom kind ' + kind)

    def term(self, P):
        if not P: return z3.RealVal(0)
        ts = []
        for m, c in P.items():
            t = z3.RealVal(str(c)) if not isinstance(c, int) else z3.RealVal(c)
            for v, e in m:
                x = self.var(v)
                if e > 0:
                    for _ in range(e): t = t * x
                else:
                    for _ in range(-e): t = t / x
            ts.append(t)
        return z3.Sum(ts) if len(ts) > 1 else ts[0]

    def box(self, only=None):
        cs = []
        for i, (lo, hi, v, _) in self.rec.syms.items():
            if only is not None and i not in only: continue
            x = self.sym(i)
            cs.append(x >= z3.RealVal(str(Fraction(lo)))); cs.append(x <= z3.RealVal(str(Fraction(hi))))
        return cs

    def atom_constraint(self, pred, a, b, res, linear_only=False, strict=False):
        """z3 constraint of one recorded comparison / conversion; None if dropped (linear_only and nonlinear).
        strict=True gives the topological interior of the class (used for derivative obligations)"""
        rec = self.rec
        if pred >= 100:
            Pa = rec.nf(a)
            if linear_only and not is_affine(Pa): return None
            e = self.term(Pa); v = res
            if strict:
                if v > 0: return z3.And(e > v, e < v + 1)
                if v < 0: return z3.And(e > v - 1, e < v)
                return z3.And(e > -1, e < 1)
            if v > 0: return z3.And(e >= v, e < v + 1)
            if v < 0: return z3.And(e > v - 1, e <= v)
            return z3.And(e > -1, e < 1)
        Pa, Pb = rec.nf(a), rec.nf(b)
        D = padd(Pa, Pb, -1)
        if linear_only and not is_affine(D): return None
        if is_affine(D) or True:
            e = self.term(D); z = 0
        p = pred if pred < 8 else pred - 8   # ordered / unordered variants coincide without NaN
        if pred == 15: c = z3.BoolVal(True)
        elif pred == 0: c = z3.BoolVal(False)
        elif strict:
            if res: c = {1: z3.BoolVal(False), 2: e > 0, 3: e > 0, 4: e < 0, 5: e < 0, 6: e != 0}[p]
            else:   c = {1: e != 0, 2: e < 0, 3: e < 0, 4: e > 0, 5: e > 0, 6: z3.BoolVal(False)}[p]
            return c
        else:
            c = {1: e == 0, 2: e > 0, 3: e >= 0, 4: e < 0, 5: e <= 0, 6: e != 0}[p]
        return c if res else z3.Not(c)

    def pc(self, linear_only=False, upto=None, strict=False):
        cs = []; seen = set()
        for k, (pred, a, b, res) in enumerate(self.rec.pc):
            if upto is not None and k >= upto: break
            if (pred, a, b, res) in seen: continue
            seen.add((pred, a, b, res))
            c = self.atom_constraint(pred, a, b, res, linear_only, strict)
            if c is not None: cs.append(c)
        return cs

    def pc_atoms(self):
        """deduplicated list of (key, constraint) in program order, for the branch-tree exploration"""
        out = []; seen = set()
        for (pred, a, b, res) in self.rec.pc:
            if (pred, a, b, res) in seen: continue
            seen.add((pred, a, b, res))
            out.append(((pred, a, b, res), self.atom_constraint(pred, a, b, res, False)))
        return out


def hull_monomial(m, rec):
    """interval hull of a monomial over the symbol box (None if unbounded / involves atoms)"""
    lo, hi = Fraction(1), Fraction(1)
    for v, e in m:
        if v[0] != 's':
            kind, data = rec.atoms[v[1]]
            if kind == 'uf' and data[0] in ('cos', 'sin'): a, b = Fraction(-1), Fraction(1)     # bounded atoms
            else: return None
        else:
            a, b = Fraction(rec.syms[v[1]][0]), Fraction(rec.syms[v[1]][1])
        if e < 0:
            if a <= 0 <= b: return None
            a, b = 1 / b, 1 / a; e = -e
        # [a,b]^e
        if e % 2 == 0:
            if a <= 0 <= b: l, h = Fraction(0), max(a ** e, b ** e)
            else: l, h = min(a ** e, b ** e), max(a ** e, b ** e)
        else:
            l, h = a ** e, b ** e
        cands = [lo * l, lo * h, hi * l, hi * h]
        lo, hi = min(cands), max(cands)
    return lo, hi


class Decider:
    """decides the obligations of one record"""
    def __init__(self, rec, tol=TOL, timeout_ms=20000, shared_vars=None):
        self.rec = rec; self.tol = tol; self.timeout_ms = timeout_ms
        self.ctx = Ctx(rec, shared_vars)
        self.stats = {'queries': 0, 'solver_s': 0.0, 'lra': 0, 'relax': 0, 'nra': 0, 'zero_residual': 0}
        self._pc_lin = None; self._pc_full = None; self._pc_lin_s = None; self._pc_full_s = None; self.strict = False
        self.crosscheck = int(os.environ.get('FPSYM_CROSSCHECK', '0'))

    def pc_lin(self):
        if self.strict:
            if self._pc_lin_s is None: self._pc_lin_s = self.ctx.pc(linear_only=True, strict=True)
            return self._pc_lin_s
        if self._pc_lin is None: self._pc_lin = self.ctx.pc(linear_only=True)
        return self._pc_lin

    def pc_full(self):
        if self.strict:
            if self._pc_full_s is None: self._pc_full_s = self.ctx.pc(linear_only=False, strict=True)
            return self._pc_full_s
        if self._pc_full is None: self._pc_full = self.ctx.pc(linear_only=False)
        return self._pc_full

    def _check(self, cs, logic=None):
        s = z3.Solver() if logic is None else z3.SolverFor(logic)
        s.set('timeout', self.timeout_ms)
        s.add(*cs)
        t = time.time(); r = s.check(); self.stats['solver_s'] += time.time() - t; self.stats['queries'] += 1
        if self.crosscheck > 0 and r in (z3.sat, z3.unsat):
            # second opinion: the same query in SMT-LIB2 to cvc5 (a sample of the queries of every configuration in the thorough tier)
            self.crosscheck -= 1
            try:
                import subprocess, tempfile
                with tempfile.NamedTemporaryFile('w', suffix='.smt2', dir=os.environ.get('FPSYM_TMP', None), delete=False) as f:
                    f.write('(set-logic ALL)\n' + s.to_smt2()); fn = f.name
                rr = subprocess.run(['/usr/bin/cvc5', '--tlimit=20000', fn], capture_output=True, text=True, timeout=40)
                os.remove(fn)
                ans = rr.stdout.strip().split('\n')[0] if rr.stdout.strip() else 'error'
                self.stats['cvc5_queries'] = self.stats.get('cvc5_queries', 0) + 1
                if ans in ('sat', 'unsat'):
                    if ans == str(r): self.stats['cvc5_agree'] = self.stats.get('cvc5_agree', 0) + 1
                    else: self.stats['cvc5_disagree'] = self.stats.get('cvc5_disagree', 0) + 1
                else: self.stats['cvc5_unknown'] = self.stats.get('cvc5_unknown', 0) + 1
            except Exception:
                self.stats['cvc5_unknown'] = self.stats.get('cvc5_unknown', 0) + 1
        return r, s

    def model_inputs(self, s):
        """a model of the (satisfiable) query, pulled towards the concrete representative: symbols the violation does not
        depend on keep the value they had on the explored run (fewer accidental coincidences when the model is replayed)"""
        lits = {}
        for i, (lo, hi, v, _) in self.rec.syms.items():
            p = z3.Bool('keep_%d' % i); lits[i] = p
            s.add(z3.Implies(p, self.ctx.sym(i) == z3.RealVal(str(Fraction(v)))))
        remaining = set(lits)
        m = None
        for _ in range(8):
            t = time.time(); r = s.check(*[lits[i] for i in sorted(remaining)]); self.stats['solver_s'] += time.time() - t
            if r == z3.sat: m = s.model(); break
            if r != z3.unsat: break
            core = set(str(c) for c in s.unsat_core())
            drop = [i for i in remaining if str(lits[i]) in core]
            if not drop: break
            remaining -= set(drop)
        if m is None:
            if s.check() != z3.sat: return self.rec.inputs()
            m = s.model()
        out = {}
        for i in self.rec.syms:
            out[i] = z3val(m.eval(self.ctx.sym(i), model_completion=True))
        return out

    def residual(self, o):
        kind, a, b, va, vb = o[0], o[1], o[2], float.fromhex(o[3]), float.fromhex(o[4])
        Pa = self.rec.nf(a) if a else pconst(Fraction(va))
        Pb = self.rec.nf(b) if b else pconst(Fraction(vb))
        if kind == 4:
            Pb = self.rec.pdiff(Pb, ('s', o[7]))
        R = padd(Pa, Pb, -1)
        if any(v[0] == 'a' for v in pvars(R)): R = self.rec.trig_reduce(R)
        return R

    def decide(self, o):
        """returns dict(verdict = 'holds' | 'violated' | 'inconclusive', method, model inputs...)"""
        kind, a, b = o[0], o[1], o[2]
        va, vb, scale = float.fromhex(o[3]), float.fromhex(o[4]), float.fromhex(o[5])
        label = o[6]
        res = {'label': label, 'kind': ['eq', 'le', 'ident', 'nonconst', 'deriv'][kind], 'symbolic': bool(a or b)}
        self.strict = (kind == 4)   # derivative obligations are claimed on the interior of the class (points where the surrogate is smooth)
        try:
            R = self.residual(o)
        except TooBig as e:
            res.update(verdict='inconclusive', method='normal form too big: %s' % e); return res
        except NonFinite:
            raise
        except Inconclusive as e:
            res.update(verdict='inconclusive', method=str(e)); return res
        res['monomials'] = len(R); res['degree'] = pdegree(R)
        ctx = self.ctx
        if kind == 3:   # vacuity witness: value depends on symbols
            nonc = any(m != () for m in R)
            if not nonc:
                res.update(verdict='violated', method='structural: expression is constant'); return res
            res.update(verdict='holds', method='structural: non-constant normal form (the concrete run is a witness of the path condition)'); return res
        t = Fraction(self.tol) * Fraction(scale) if kind != 2 else Fraction(0)
        if not R:
            self.stats['zero_residual'] += 1
        # constants: decide numerically but still through the solver for uniformity
        if kind == 1:
            bad = lambda e: e > z3.RealVal(str(t))
        elif kind == 2:
            bad = lambda e: e != 0
        else:
            bad = lambda e: z3.Or(e > z3.RealVal(str(t)), e < -z3.RealVal(str(t)))
        atoms_used = any(v[0] == 'a' and not (self.rec.atoms[v[1]][0] == 'uf' and self.rec.atoms[v[1]][1][0] in ('cos', 'sin')) for v in pvars(R))
        if is_affine(R):
            self.stats['lra'] += 1
            # the path condition only strengthens the query: try the box alone first (identities that hold on the whole box are the rule)
            r, s = self._check(ctx.box() + [bad(ctx.term(R))])
            if r == z3.unsat: res.update(verdict='holds', method='QF_LRA (whole box)'); return res
            r, s = self._check(ctx.box() + self.pc_lin() + [bad(ctx.term(R))])
            if r == z3.unsat: res.update(verdict='holds', method='QF_LRA'); return res
            if r == z3.sat and len(self.pc_lin()) < len(self.rec.pc):
                r, s = self._check(ctx.box() + self.pc_full() + list(ctx.defs) + [bad(ctx.term(R))])
                if r == z3.unsat: res.update(verdict='holds', method='QF_NRA(pc)'); return res
            if r == z3.sat:
                res.update(verdict='violated', method='QF_LRA', inputs=self.model_inputs(s)); return res
            res.update(verdict='inconclusive', method='QF_LRA unknown'); return res
        # polynomial: interval relaxation first
        if not atoms_used:
            hulls = {}; ok = True
            for m in R:
                if m == (): continue
                if len(m) == 1 and m[0][1] == 1: continue
                h = hull_monomial(m, self.rec)
                if h is None: ok = False; break
                hulls[m] = h
            if ok:
                self.stats['relax'] += 1
                ts = []; cs = []
                for k, (m, c) in enumerate(R.items()):
                    if m == (): ts.append(z3.RealVal(str(c)))
                    elif len(m) == 1 and m[0][1] == 1 and m[0][0][0] == 's': ts.append(z3.RealVal(str(c)) * ctx.sym(m[0][0][1]))
                    else:
                        w = z3.Real('w%d' % k); lo, hi = hulls[m]
                        cs += [w >= z3.RealVal(str(lo)), w <= z3.RealVal(str(hi))]; ts.append(z3.RealVal(str(c)) * w)
                r, s = self._check(ctx.box() + cs + [bad(z3.Sum(ts))])
                if r == z3.unsat: res.update(verdict='holds', method='interval-relaxation QF_LRA (whole box)'); return res
                r, s = self._check(ctx.box() + self.pc_lin() + cs + [bad(z3.Sum(ts))])
                if r == z3.unsat: res.update(verdict='holds', method='interval-relaxation QF_LRA'); return res
        self.stats['nra'] += 1
        r, s = self._check(ctx.box() + self.pc_full() + [bad(ctx.term(R))] + list(ctx.defs))
        if r == z3.unsat: res.update(verdict='holds', method='QF_NRA'); return res
        if r == z3.sat: res.update(verdict='violated', method='QF_NRA', inputs=self.model_inputs(s)); return res
        res.update(verdict='inconclusive', method='QF_NRA unknown/timeout'); return res


def solve_near(s, V, target, stats=None, rounds=8):
    """s: solver whose assertions are satisfiable; returns a model that keeps as many symbols as possible at `target`"""
    lits = {}
    for i, v in target.items():
        if i not in V: continue
        p = z3.Bool('keep_%d' % i); lits[i] = p
        s.add(z3.Implies(p, V[i] == z3.RealVal(str(Fraction(v)))))
    remaining = set(lits)
    for _ in range(rounds):
        if not remaining: break
        t = time.time(); r = s.check(*[lits[i] for i in sorted(remaining)])
        if stats is not None: stats['solver_s'] += time.time() - t
        if r == z3.sat: return s.model()
        if r != z3.unsat: break
        core = set(str(c) for c in s.unsat_core())
        drop = [i for i in remaining if str(lits[i]) in core]
        if not drop: break
        remaining -= set(drop)
    return None


def z3val(v):
    try:
        if z3.is_rational_value(v):
            n, d = v.numerator_as_long(), v.denominator_as_long()
            try: return float(Fraction(n, d))
            except OverflowError: return (1e300 if (n > 0) == (d > 0) else -1e300) if abs(n) > abs(d) else 0.0
        if z3.is_algebraic_value(v): return float(v.approx(30).as_fraction())
        return float(v.as_fraction())
    except Exception:
        try: return float(str(v))
        except Exception: return 0.0


# ---------------------------------------------------------------- running harnesses

def run_harness(exe, args, inputs, workdir, timeout=120, maxsteps=None, tag='r', replay_ints=None):
    os.makedirs(workdir, exist_ok=True)
    inp = os.path.join(workdir, tag + '.in'); out = os.path.join(workdir, tag + '.json')
    with open(inp, 'w') as f:
        for k, v in sorted(inputs.items()): f.write('%d %s\n' % (k, float(v).hex()))
    if os.path.exists(out): os.remove(out)
    env = dict(os.environ, FPSYM_INPUTS=inp, FPSYM_OUT=out, ASAN_OPTIONS='detect_leaks=0:abort_on_error=0:exitcode=77:allocator_may_return_null=1:detect_odr_violation=0')
    if maxsteps: env['FPSYM_MAXSTEPS'] = str(maxsteps)
    if replay_ints:
        ri = os.path.join(workdir, tag + '.ints'); open(ri, 'w').write(' '.join(str(v) for v in replay_ints)); env['FPSYM_REPLAY_INTS'] = ri
    t = time.time()
    try:
        r = subprocess.run([exe] + [str(a) for a in args], env=env, capture_output=True, text=True, timeout=timeout, cwd=workdir, errors='replace')
        rc, so, se = r.returncode, r.stdout, r.stderr
    except subprocess.TimeoutExpired as e:
        rc, so, se = 'timeout', '', ''
    info = {'rc': rc, 'stdout': so[-2000:], 'stderr': se[-3000:], 'wall': time.time() - t}
    rec = None
    if os.path.exists(out):
        try:
            rec = Record(json.load(open(out)))
        except Exception as e:
            info['parse_error'] = str(e)
    return rec, info


def pc_signature(rec):
    return hashlib.sha1(json.dumps(rec.pc).encode()).hexdigest()


class Explorer:
    """path-class exploration with a coverage certificate.
    strategy 'global': next input from  box AND NOT(PC_1 OR ... OR PC_k); unsat certifies that the box is covered.
    strategy 'tree'  : generational search over the branch tree: for every explored path and every atom position k,
                       prefix[0..k) AND NOT atom_k is solved; the exploration is complete when every alternative is
                       explored or proved infeasible by the solver."""
    def __init__(self, exe, plain, args, workdir, max_paths=64, tol=TOL, timeout=120, maxsteps=None, solver_timeout_ms=20000, seed=0, strategy='global', time_budget_s=None):
        self.time_budget_s = time_budget_s; self.t_start = time.time(); self.budget_hit = False
        self.exe, self.plain, self.args, self.workdir = exe, plain, args, workdir
        self.max_paths, self.tol, self.timeout, self.maxsteps, self.solver_timeout_ms = max_paths, tol, timeout, maxsteps, solver_timeout_ms
        self.strategy = strategy
        self.V = {}
        self.cover = z3.Solver(); self.cover.set('timeout', solver_timeout_ms)
        self.boxed = set(); self.boxcs = []
        self.paths = []; self.coverage_complete = False; self.bands = 0; self.cover_unknown = False
        self.infeasible = 0; self.diverged = 0
        self.stats = {'queries': 0, 'solver_s': 0.0, 'lra': 0, 'relax': 0, 'nra': 0, 'zero_residual': 0, 'runs': 0, 'run_s': 0.0}
        self.sigs = set(); self.defaults = {}

    def add_box(self, rec):
        for i, (lo, hi, v, _) in rec.syms.items():
            if i in self.boxed: continue
            self.boxed.add(i)
            if i not in self.V: self.V[i] = z3.Real('s%d' % i)
            cs = [self.V[i] >= z3.RealVal(str(Fraction(lo))), self.V[i] <= z3.RealVal(str(Fraction(hi)))]
            self.cover.add(*cs); self.boxcs += cs
            self.defaults[i] = v

    def _model_inputs(self, m):
        inputs = {}
        for i, x in self.V.items():
            if i not in self.boxed: continue
            inputs[i] = z3val(m.eval(x, model_completion=True))
        return inputs

    def _one(self, handle, inputs, k):
        rec, info = run_harness(self.exe, self.args, inputs, self.workdir, self.timeout, self.maxsteps, tag='p%d' % k)
        self.stats['runs'] += 1; self.stats['run_s'] += info['wall']
        dec = Decider(rec, self.tol, max(self.solver_timeout_ms, 20000), self.V) if rec is not None else None
        handle(rec, info, dec, k, dict(inputs))
        if dec is not None:
            for key in ('queries', 'solver_s', 'lra', 'relax', 'nra', 'zero_residual'): self.stats[key] += dec.stats[key]
            for key in ('cvc5_queries', 'cvc5_agree', 'cvc5_disagree', 'cvc5_unknown'): self.stats[key] = self.stats.get(key, 0) + dec.stats.get(key, 0)
        self.paths.append({'inputs': dict(inputs), 'atoms': len(rec.pc) if rec is not None else None, 'rc': info['rc']})
        return rec, info, dec

    def run(self, handle):
        if self.strategy == 'tree': return self.run_tree(handle)
        inputs = {}
        npaths = 0
        while npaths < self.max_paths:
            if self.time_budget_s and time.time() - self.t_start > self.time_budget_s: self.budget_hit = True; break
            rec, info, dec = self._one(handle, inputs, npaths)
            npaths += 1
            if rec is None:
                break   # crash / timeout before a record: nothing to extend the cover with
            self.add_box(rec)
            sig = pc_signature(rec)
            t = time.time()
            try:
                pcs = dec.ctx.pc(linear_only=False)
                self.cover.add(*dec.ctx.defs)
            except (TooBig, Inconclusive):
                self.cover_unknown = True; break
            new = sig not in self.sigs
            self.sigs.add(sig)
            if not new:
                # the float run landed in a class already covered (rounding at a class boundary): cut a band around the point
                self.bands += 1
                if self.bands > 40: break
                band = [z3.Or(self.V[i] - z3.RealVal(str(Fraction(v))) > z3.RealVal(str(Fraction(1e-9 * (1 + abs(v))))),
                              z3.RealVal(str(Fraction(v))) - self.V[i] > z3.RealVal(str(Fraction(1e-9 * (1 + abs(v)))))) for i, v in inputs.items() if i in self.V]
                if band: self.cover.add(z3.Or(*band))
                npaths -= 1
            else:
                self.cover.add(z3.Not(z3.And(*pcs)) if pcs else z3.BoolVal(False))
            r = self.cover.check(); self.stats['solver_s'] += time.time() - t; self.stats['queries'] += 1
            if r == z3.unsat:
                self.coverage_complete = True; break
            if r != z3.sat:
                self.cover_unknown = True; break
            m0 = self.cover.model()
            self.cover.push()
            m = solve_near(self.cover, self.V, self.defaults, self.stats)
            inputs = self._model_inputs(m if m is not None else m0)
            self.cover.pop()
        return npaths

    def run_tree(self, handle):
        from collections import deque
        queue = deque([(None, 0, None, None)]); prio = deque()   # prio: alternatives of float->int conversions (index / endpoint classes) first
        npaths = 0
        while (queue or prio) and npaths < self.max_paths:
            if self.time_budget_s and time.time() - self.t_start > self.time_budget_s: self.budget_hit = True; break
            prefix, bound, expect, near = prio.popleft() if prio else queue.popleft()
            if prefix is None:
                inputs = {}
            else:
                s = z3.Solver(); s.set('timeout', self.solver_timeout_ms); s.set('rlimit', 40 * self.solver_timeout_ms * 1000); s.add(*self.boxcs); s.add(*prefix)
                t = time.time(); r = s.check(); self.stats['solver_s'] += time.time() - t; self.stats['queries'] += 1
                if r == z3.unsat: self.infeasible += 1; continue
                if r != z3.sat: self.cover_unknown = True; continue
                m0 = s.model()
                m = solve_near(s, self.V, near, self.stats) if near else None
                inputs = self._model_inputs(m if m is not None else m0)
            rec, info, dec = self._one(handle, inputs, npaths)
            npaths += 1
            if rec is None: self.cover_unknown = True; continue
            self.add_box(rec)
            sig = pc_signature(rec)
            if sig in self.sigs:
                self.bands += 1; continue
            self.sigs.add(sig)
            try:
                atoms = dec.ctx.pc_atoms(); defs = list(dec.ctx.defs)
            except (TooBig, Inconclusive):
                self.cover_unknown = True; continue
            shape = [(k[0], k[3]) for k, _ in atoms]
            if expect is not None:
                ok = len(shape) >= len(expect) and all(shape[i] == expect[i] for i in range(len(expect) - 1)) and shape[len(expect) - 1][0] == expect[-1][0] and shape[len(expect) - 1][1] != expect[-1][1]
                if not ok: self.diverged += 1; bound = 0
            cs = [c for _, c in atoms]
            if expect is not None and bound >= 1 and bound <= len(atoms) and atoms[bound - 1][0][0] >= 100 and shape[:bound - 1] == expect[:bound - 1] and shape[bound - 1][0] == expect[-1][0]:
                # the branching atom is a float->int conversion: it has more than two outcomes. This run took one more of them; ask for a further one
                # (all values seen so far at this position stay excluded through the prefix) until the solver reports that none is left
                prio.append((list(prefix) + defs + [z3.Not(cs[bound - 1])], bound, expect, rec.inputs()))
            for k in range(bound, len(atoms)):
                (prio if atoms[k][0][0] >= 100 else queue).append((defs + cs[:k] + [z3.Not(cs[k])], k + 1, shape[:k + 1], rec.inputs()))
        self.coverage_complete = (not queue) and (not prio) and not self.cover_unknown and self.diverged == 0
        self.pending = len(queue) + len(prio)
        return npaths
