"""Engine K/A: leaf kernels of the real code -> LLVM IR (clang -O1) -> C (ir2c) -> CBMC (bit-precise, all values within the unwinding
bound), with a reachability witness twin, per-run translator validation against the g++ build and replay of counterexamples."""
import os, re, subprocess, time, hashlib, shutil, json
import build

LABELS = {11: 'node lies in the canonical interval', 12: 'basis function is one at its own node', 21: 'a kid lists the point as parent or step-parent', 22: 'level(kid) == level(point) + 1',
          23: 'node(kid) != node(point)', 24: 'level(parent) + 1 == level(point)', 25: 'the parent lists the point among its kids', 26: 'points without a parent have level 0',
          31: 'hierarchical basis: function of j vanishes at the node of i unless j is an ancestor-or-self of i', 41: 'getNumPoints(L) counts exactly the points of level <= L',
          51: 'evalSupport agrees with evalRaw', 52: 'basis vanishes farther from its node than getSupport()', 53: 'basis vanishes where evalSupport reports no support',
          71: 'every level has at least one point', 72: 'the number of points grows strictly with the level', 73: 'n points interpolate degree n-1 exactly (getIExact == getNumPoints - 1; +2 for clenshaw-curtis-zero)', 74: 'getIExact - 1 <= getQExact <= 2 getNumPoints + 1',
          61: 'int2log2 is the largest power of two not exceeding the argument', 62: 'int3log3 is the smallest power of three above the argument', 63: 'intlog2 is the floor of the binary logarithm', 64: 'pow2/pow3 agree with repeated multiplication',
          81: 'merge of two sorted index sets is strictly sorted and its cached count matches its storage', 82: 'merge loses nothing: every index of either operand is found', 83: 'merge invents nothing', 84: 'set difference is strictly sorted',
          85: 'A - B holds exactly the indexes of A that are not in B', 86: 'getSlot returns the position of the index and -1 iff it is absent', 87: 'removeIndex removes exactly that index',
          88: 'StorageSet::addValues: the i-th strip is the value supplied for the i-th index of the merged set', 89: 'MultiIndexSet(Data2D) is the sorted duplicate-free set of the given rows',
          99: 'reachability witness'}
BACKENDS = {'minisat': '', 'cadical': '--sat-solver cadical', 'kissat': '--external-sat-solver kissat'}
CFLAGS = '-std=c++14 -O1 -fno-vectorize -fno-slp-vectorize -fno-unroll-loops'


def incs():
    return ' '.join('-I%s/%s' % (build.REPO, d) for d in build.SRC_DIRS) + ' -I%s' % build.configured_dir()


class KConfig:
    def __init__(self, name, harness, defines, unwind=16, entry='harness_rule', timeout=600, modv=200, link_lib=False, mem_gb=8, slots=1, order='llvm', backends=('kissat', 'minisat')):
        self.name, self.harness, self.defines, self.unwind, self.entry, self.timeout, self.modv = name, harness, defines, unwind, entry, timeout, modv
        self.args = [defines]; self.time_budget_s = timeout; self.max_paths = 1; self.link_lib = link_lib; self.mem_gb = mem_gb; self.slots = slots; self.order = order; self.backends = backends


def sh(cmd, timeout=900):
    t = time.time()
    r = subprocess.run(cmd, shell=True, capture_output=True, text=True, timeout=timeout, errors='replace')
    return r, time.time() - t


def portfolio(cmds, timeout):
    """runs the same CBMC query with several SAT back ends in parallel; the first process that prints a verdict wins, the others are killed.
    Returns (stdout of the winner or of the last finisher, seconds, name of the back end)"""
    t = time.time(); procs = []
    for name, cmd in cmds:
        procs.append((name, subprocess.Popen(cmd, shell=True, stdout=subprocess.PIPE, stderr=subprocess.STDOUT, text=True, errors='replace', start_new_session=True)))
    outs = {}; winner = None
    import select
    pending = dict((p.stdout.fileno(), (n, p)) for n, p in procs); bufs = dict((n, []) for n, _ in procs)
    while pending and time.time() - t < timeout + 30:
        rd, _, _ = select.select(list(pending), [], [], 1.0)
        for fd in rd:
            n, p = pending[fd]; chunk = os.read(fd, 1 << 16).decode('utf-8', 'replace')
            if chunk: bufs[n].append(chunk)
            else:
                p.wait(); del pending[fd]; outs[n] = ''.join(bufs[n])
                if 'VERIFICATION' in outs[n] and winner is None: winner = n
        if winner: break
    for n, p in procs:
        if p.poll() is None:
            try: os.killpg(p.pid, 9)
            except OSError: pass
            p.wait()
        outs.setdefault(n, ''.join(bufs[n]))
    if winner is None: winner = procs[-1][0]
    return outs[winner], time.time() - t, winner


def run_k(kc):
    t0 = time.time()
    res = {'config': kc.name, 'harness': kc.harness, 'args': [kc.defines], 'paths': 1, 'obligations': 0, 'discharged': 0, 'nontrivial': 0, 'checks': 0, 'problems': [], 'inconclusive': [],
           'assumed_away': 0, 'coverage_complete': False, 'samples': [], 'notes': {}, 'methods': {}, 'translator_validated': None, 'stats': {'queries': 0, 'solver_s': 0.0, 'runs': 0, 'run_s': 0.0}, 'engine': 'K'}
    build.ensure_engines()
    src = os.path.join(build.VERIF, 'harness', kc.harness + '.cpp')
    d = os.path.join(build.BUILD, 'work', 'K', re.sub(r'[^\w.-]', '_', kc.name)); shutil.rmtree(d, ignore_errors=True); os.makedirs(d)
    sup = os.path.join(build.ENG, 'ir2c', 'support.c'); nat = os.path.join(build.ENG, 'ir2c', 'native.c'); natm = os.path.join(build.ENG, 'ir2c', 'native_main.cpp')
    def gen(tag, extra):
        r, _ = sh('%s %s %s %s %s -S -emit-llvm %s -o %s/%s.ll' % (build.CLANGXX, CFLAGS, incs(), kc.defines, extra, src, d, tag))
        if r.returncode: return 'cannot compile the harness (the encoded entity changed?): ' + r.stderr[-600:]
        r, _ = sh('IR2C_ORDER=%s %s %s/%s.ll %s > %s/%s.c 2> %s/%s.err' % (kc.order, os.path.join(build.BUILD, 'ir2c'), d, tag, kc.entry, d, tag, d, tag))
        if r.returncode: return 'ir2c cannot translate: ' + open('%s/%s.err' % (d, tag)).read()[-600:]
        return None
    for tag, extra in (('h', ''), ('w', '-DWITNESS')):
        e = gen(tag, extra)
        if e: res['inconclusive'].append({'what': e}); res['wall'] = time.time() - t0; return res
    flags = '--unwind %d --unwinding-assertions --signed-overflow-check --undefined-shift-check --pointer-overflow-check --drop-unused-functions --no-malloc-may-fail' % kc.unwind
    # ---- translator validation: generated C (gcc) vs the real code (g++) on pseudo-random inputs
    r1, _ = sh('gcc -O1 -w %s/h.c %s -o %s/gen -lm' % (d, nat, d))
    if kc.link_lib:
        libdir, _k = build.ensure_lib()
        sh('clang-14 -O1 -w -c %s -o %s/native.o' % (nat, d))
        r2, _ = sh('%s -fsanitize=address -std=c++14 -O1 -w %s %s %s %s %s/native.o %s/libplain.a -o %s/real -lm -lpthread' % (build.CLANGXX, incs(), kc.defines, src, natm, d, libdir, d))
    else:
        r2, _ = sh('g++ -std=c++14 -O1 -w %s %s %s %s %s -x c %s -o %s/real -lm' % (incs(), kc.defines, src, natm, '', nat, d))
    if r1.returncode or r2.returncode:
        res['inconclusive'].append({'what': 'native builds for translator validation failed', 'detail': (r1.stderr + r2.stderr)[-500:]})
    else:
        agree = True; used = 0; seen_ids = set()
        for seed in range(1, 301):
            env = 'K_SEED=%d K_MOD=%d' % (seed, kc.modv)
            a, _ = sh('%s %s/gen' % (env, d), 20); b, _ = sh('%s %s/real' % (env, d), 20)
            if a.stdout != b.stdout: agree = False; res['inconclusive'].append({'what': 'translator validation: generated C and the g++ build disagree', 'seed': seed, 'gen': a.stdout[-200:], 'real': b.stdout[-200:]}); break
            if 'ASSUME-FALSE' not in a.stdout: used += 1
            for l in b.stdout.split('\n'):
                if len(l.split()) == 2: seen_ids.add('K' + l.split()[0])
        res['translator_validated'] = agree; res['notes']['validation_inputs_past_assumes'] = used; res['relevant_ids'] = sorted(seen_ids)
    # ---- the verdict
    cbmc = 'ulimit -v %d; timeout %d cbmc' % (kc.mem_gb * 1000000, kc.timeout)   # address-space cap: an out-of-memory run is reported as 'no verdict', never as success
    for attempt in range(3):   # the bound is raised (twice at most) when an unwinding assertion fails; the bound that was used is reported
        # SAT back ends differ by orders of magnitude on these formulas (minisat 900 s+ vs kissat 17 s on K_rule check 5; minisat 40 s vs cadical 108 s on K_sets check 2): portfolio
        out, dt, backend = portfolio([(b, '%s %s/h.c %s %s %s 2>&1' % (cbmc, d, sup, flags, BACKENDS[b])) for b in kc.backends], kc.timeout)
        res['stats']['queries'] += 1; res['stats']['solver_s'] += dt; res['notes']['sat_backend'] = backend
        pf = re.findall(r'^\[([^\]]+)\] (?:line \d+ )?(.*?): (SUCCESS|FAILURE)$', out, re.M)
        if attempt < 2 and pf and any('unwinding assertion' in p[1] and p[2] == 'FAILURE' for p in pf) and not any('unwinding assertion' not in p[1] and p[2] == 'FAILURE' for p in pf):
            flags = flags.replace('--unwind %d ' % kc.unwind, '--unwind %d ' % (kc.unwind + 2)); kc.unwind += 2; continue
        break
    props = re.findall(r'^\[([^\]]+)\] (?:line \d+ )?(.*?): (SUCCESS|FAILURE)$', out, re.M)
    if 'VERIFICATION' not in out:
        res['inconclusive'].append({'what': 'cbmc gave no verdict', 'detail': out[-500:]}); res['wall'] = time.time() - t0; return res
    res['obligations'] = len(props); res['discharged'] = sum(1 for p in props if p[2] == 'SUCCESS'); res['nontrivial'] = sum(1 for p in props if p[1] in res.get('relevant_ids', []) and p[2] == 'SUCCESS')
    unw = [p for p in props if 'unwinding assertion' in p[1]]
    res['coverage_complete'] = all(p[2] == 'SUCCESS' for p in unw)
    res['methods']['cbmc SAT (bit-precise, unwind %d, unwinding assertions %s)' % (kc.unwind, 'hold' if res['coverage_complete'] else 'FAIL')] = len(props)
    fails = [p for p in props if p[2] == 'FAILURE']
    for p in [p for p in fails if 'unwinding' in p[1]]: res['inconclusive'].append({'what': 'unwinding bound %d too small: %s' % (kc.unwind, p[0])})
    real_fails = [p for p in fails if 'unwinding' not in p[1]]
    if real_fails:
        # counterexample: first failing property with a trace, replayed on the g++ build of the real code
        r, dt = sh('%s %s/h.c %s %s %s --stop-on-fail --trace 2>&1' % (cbmc, d, sup, flags, '' if backend == 'minisat' else BACKENDS['cadical']), kc.timeout + 30)   # traces need an internal back end; res['stats']['queries'] += 1; res['stats']['solver_s'] += dt
        # nondet values: the generated C assigns `vK = nondet_int();`; the trace reports the assignment at that line
        vals = []
        csrc = open('%s/h.c' % d).read().split('\n')
        nd_lines = {}
        for ln, line in enumerate(csrc, 1):
            mm0 = re.match(r'\s*(v\d+) = nondet_int\(\);', line)
            if mm0: nd_lines[ln] = mm0.group(1)
        # every execution of such a line, in trace order (a line inside a loop is executed several times)
        for mt in re.finditer(r'State \d+ file [^\n]*h\.c function \w+ line (\d+) thread 0\n-+\n\s*(v\d+)=(-?\d+)', r.stdout):
            ln = int(mt.group(1))
            if nd_lines.get(ln) == mt.group(2):
                v = int(mt.group(3)); vals.append(str(v - (1 << 32) if v >= (1 << 31) else v))
        m = re.search(r'K(\d+)\n?.*?\n', r.stdout); failing = re.findall(r'Violated property:.*?\n.*?\n\s*(.*?)\n', r.stdout, re.S)
        kid = None
        mm = re.search(r'Violated property:\n\s*file[^\n]*\n\s*([^\n]+)\n', r.stdout)
        lab = mm.group(1) if mm else real_fails[0][1]
        rr, _ = sh('K_INPUTS="%s" %s/real' % (' '.join(vals), d), 20)
        confirmed = any(l.split()[1] == '0' for l in rr.stdout.split('\n') if len(l.split()) == 2)
        kn = int(lab[1:]) if re.match(r'K\d+$', lab) else None
        res['problems'].append({'kind': 'cbmc', 'label': '%s: %s' % (lab, LABELS.get(kn, 'built-in check')) if kn else lab, 'inputs': {i: float(v) for i, v in enumerate(vals)}, 'inputs_hex': {str(i): float(v).hex() for i, v in enumerate(vals)},
                                'confirmed': confirmed, 'replay_observed': 'real code (g++) with nondet values %s prints: %s' % (vals, rr.stdout.strip().replace('\n', '; ')[-200:]), 'path': 0,
                                'other_failing_properties': [p[1] for p in real_fails][:6]})
    # ---- witness twin: the final assert(0) must be reachable
    wout, dt, _b = portfolio([(b, '%s %s/w.c %s %s %s 2>&1' % (cbmc, d, sup, flags, BACKENDS[b])) for b in kc.backends], kc.timeout); res['stats']['queries'] += 1; res['stats']['solver_s'] += dt
    class _R: pass
    r = _R(); r.stdout = wout
    if not re.search(r'K99: FAILURE', r.stdout): res['inconclusive'].append({'what': 'vacuous: the reachability witness did not fail (the assertions are not reached)' if 'VERIFICATION' in r.stdout else 'the reachability witness twin gave no verdict (time or memory cap): non-vacuity not established', 'detail': r.stdout[-300:]})
    res['notes']['witness_twin_failed_as_required'] = 1 if re.search(r'K99: FAILURE', r.stdout) else 0
    ks = [k for k in res.get('relevant_ids', []) if re.match(r'K\d+$', k)]
    res['samples'].append({'config': kc.name, 'cbmc_properties': len(props), 'harness_assertions': ['%s %s' % (k, LABELS.get(int(k[1:]), '')) for k in ks if k != 'K99'][:6], 'unwind': kc.unwind, 'solver_s': round(res['stats']['solver_s'], 2)})
    shutil.rmtree(d, ignore_errors=True)
    res['wall'] = time.time() - t0
    return res
