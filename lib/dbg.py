import sys, os, time, json
sys.path.insert(0, os.path.dirname(os.path.abspath(__file__)))
import build, fpsym
h = sys.argv[1]; args = sys.argv[2:]
exe, plain, _ = build.ensure_harness(h)
w = os.path.join(build.BUILD, 'work', 'dbg'); os.makedirs(w, exist_ok=True)
t = time.time(); rec, info = fpsym.run_harness(exe, args, {}, w, 300); print('run', round(time.time() - t, 2), info['rc'], info['stderr'][-500:])
print('status', rec.status, 'nodes', len(rec.nodes), 'syms', len(rec.syms), 'pc', len(rec.pc), 'obl', len(rec.obl), 'checks', len(rec.checks), 'escapes', rec.d['escapes'], rec.d['escape_what'][:50], 'nan', rec.d['nan_true'])
dec = fpsym.Decider(rec)
t = time.time()
for i in rec.order: rec.nf(i)
print('nf', round(time.time() - t, 2), 'atoms', len(rec.atoms), [a[0] for a in rec.atoms[:10]])
t = time.time(); pcs = dec.pc_full(); print('pc build', round(time.time() - t, 2), 'lin', len(dec.pc_lin()), 'full', len(pcs))
for k, a in enumerate(rec.pc[:8]): print('  atom', a[0], a[3], str(dec.ctx.atom_constraint(*a))[:150])
from collections import Counter
c = Counter(); tt = Counter()
for o in rec.obl:
    t = time.time(); d = dec.decide(o); dt = time.time() - t
    c[(d['verdict'], d['method'])] += 1; tt[(d['verdict'], d['method'])] += dt
    if d['verdict'] != 'holds' and c[(d['verdict'], d['method'])] < 3: print(d)
for k in c: print(k, c[k], round(tt[k], 2))
print(dec.stats)
print([ (c,l) for c,l in rec.checks if not c][:5])
