import sys, os, time, json
sys.path.insert(0, os.path.dirname(os.path.abspath(__file__)))
import build, fpsym
h = sys.argv[1]; defines = sys.argv[2]; args = sys.argv[3:]
exe, plain, _ = build.ensure_harness(h, defines)
w = os.path.join(build.BUILD, 'work', 'dbg'); os.makedirs(w, exist_ok=True)
inputs = {}
if os.environ.get('INPUTS'): inputs = {int(k): float(v) for k, v in json.loads(os.environ['INPUTS']).items()}
rec, info = fpsym.run_harness(exe, args, inputs, w, 300); print('rc', info['rc'], info['stderr'][-500:])
dec = fpsym.Decider(rec)
def show(P):
    return ' + '.join('%s*%s' % (float(c), '*'.join('%s%d^%d' % (v[0], v[1], e) for v, e in m)) for m, c in list(P.items())[:8])
for c, l in rec.checks:
    if not c: print('CHECK FAILS', l)
for o in rec.obl:
    d = dec.decide(o)
    if d['verdict'] != 'holds':
        print(d['verdict'], d['method'], o[6], 'a=', o[1], 'b=', o[2], float.fromhex(o[3]), float.fromhex(o[4]))
        if o[1]: print('   A:', show(rec.nf(o[1])))
        if o[2]: print('   B:', show(rec.nf(o[2])))
        print('   model', {k: v for k, v in d.get('inputs', {}).items() if v != 0})
