import sys, os, argparse, importlib, time
sys.path.insert(0, os.path.dirname(os.path.abspath(__file__)))
sys.path.insert(0, os.path.join(os.path.dirname(os.path.dirname(os.path.abspath(__file__))), 'props'))
import build, runner


def main():
    ap = argparse.ArgumentParser()
    ap.add_argument('prop'); ap.add_argument('--tier', default=os.environ.get('VERIF_TIER', 'quick')); ap.add_argument('--replay')
    ap.add_argument('--only', default=None, help='regex on configuration names (debugging)')
    a = ap.parse_args()
    seed = int(os.environ.get('VERIF_SEED', '0') or 0)
    if a.replay:
        sys.exit(runner.replay(a.replay))
    mod = importlib.import_module(a.prop)
    rc = mod.run(a.tier, seed, a.only)
    sys.exit(rc)


if __name__ == '__main__':
    main()
