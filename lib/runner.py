"""Generic property runner for engine B configurations: explores path classes per configuration in parallel,
decides obligations with z3, replays counterexamples on the plain build, matches known findings, writes evidence."""
import json, os, sys, time, re, shutil, traceback, resource
from concurrent.futures import ProcessPoolExecutor, as_completed
import build, fpsym, kengine

VERIF = build.VERIF


class Config:
    def __init__(self, name, harness, args, max_paths=32, tol=fpsym.TOL, timeout=120, maxsteps=None, solver_timeout_ms=20000,
                 defines='', expect_nonvacuous=True, note='', strategy='global', validate=True, time_budget_s=None):
        self.name, self.harness, self.args = name, harness, [str(a) for a in args]
        self.max_paths, self.tol, self.timeout, self.maxsteps, self.solver_timeout_ms = max_paths, tol, timeout, maxsteps, solver_timeout_ms
        self.defines, self.expect_nonvacuous, self.note, self.strategy, self.validate = defines, expect_nonvacuous, note, strategy, validate
        self.time_budget_s = time_budget_s


def concrete_obl_fails(o, tol):
    kind = o[0]; va, vb, scale = float.fromhex(o[3]), float.fromhex(o[4]), float.fromhex(o[5])
    if va != va or vb != vb: return True
    if kind == 0: return abs(va - vb) > tol * scale
    if kind == 1: return va - vb > tol * scale
    if kind == 2: return va != vb
    return False   # kind 3 (witness) and 4 (derivative) have no direct concrete test


def classify_fault(rec, info):
    rc = info['rc']
    if rc == 'timeout': return 'timeout: no return within the wall-clock bound'
    if rec is not None and rec.status == 'step_budget': return 'step budget exceeded: no return within the step bound'
    se = info.get('stderr', '')
    if 'AddressSanitizer' in se or rc == 77:
        m = re.search(r'AddressSanitizer: ([\w-]+)', se)
        return 'memory fault (ASan %s)' % (m.group(1) if m else '?')
    if rc != 0 and rc != 3:
        m = re.search(r"terminate called after throwing an instance of '([^']+)'", se)
        if m: return 'uncaught exception %s' % m.group(1)
        return 'abnormal exit rc=%s' % rc
    return None


def run_config(prop, cfg, tier, seed):
    """runs in a worker process; returns a result dict"""
    t0 = time.time()
    if tier == 'thorough': os.environ.setdefault('FPSYM_CROSSCHECK', '2')   # per path class: two queries are also given to cvc5
    os.environ['FPSYM_TMP'] = os.path.join(build.BUILD, 'work')
    res = {'config': cfg.name, 'harness': cfg.harness, 'args': cfg.args, 'paths': 0, 'obligations': 0, 'discharged': 0, 'nontrivial': 0,
           'checks': 0, 'problems': [], 'inconclusive': [], 'assumed_away': 0, 'coverage_complete': False, 'samples': [], 'notes': {},
           'methods': {}, 'translator_validated': None, 'max_atoms': 0, 'symbols': 0}
    try:
        exe, plain, binfo = build.ensure_harness(cfg.harness, cfg.defines)
    except Exception as e:
        res['inconclusive'].append({'what': 'build failed', 'detail': str(e)[-3000:]}); res['wall'] = time.time() - t0; return res
    work = os.path.join(build.BUILD, 'work', prop, re.sub(r'[^\w.-]', '_', cfg.name))
    shutil.rmtree(work, ignore_errors=True); os.makedirs(work)
    ex = fpsym.Explorer(exe, plain, cfg.args, work, cfg.max_paths, cfg.tol, cfg.timeout, cfg.maxsteps, cfg.solver_timeout_ms, seed, cfg.strategy, cfg.time_budget_s if cfg.time_budget_s else (90 if tier == 'quick' else 600))
    first = {'done': False}

    def handle(rec, info, dec, k, inputs):
        res['paths'] += 1
        fault = classify_fault(rec, info)
        if fault:
            res['problems'].append({'kind': 'fault', 'label': fault, 'inputs': inputs, 'path': k, 'stderr': info.get('stderr', '')[-1500:]})
            return
        if rec is None:
            res['inconclusive'].append({'what': 'no record', 'path': k, 'rc': info['rc'], 'stderr': info.get('stderr', '')[-800:]}); return
        for key, v in rec.notes: res['notes'][key] = max(res['notes'].get(key, v), v)
        res['max_atoms'] = max(res['max_atoms'], len(rec.pc)); res['symbols'] = max(res['symbols'], len(rec.syms))
        if rec.status == 'assumed_away':
            res['assumed_away'] += 1; return
        if rec.d['escapes']:
            res['inconclusive'].append({'what': 'escape of symbolic data', 'detail': rec.d.get('escape_what', ''), 'path': k}); return
        if rec.d['nan_true']:
            res['nonfinite_classes'] = res.get('nonfinite_classes', 0) + 1; return
        for cond, label in rec.checks:
            res['checks'] += 1
            if rec.pc: res['nontrivial'] += 1   # decided on a solver-constructed path class
            if not cond:
                res['problems'].append({'kind': 'check', 'label': label, 'inputs': rec.inputs(), 'path': k, 'ints': rec.d.get('ints')})
        seen_labels = {}
        for idx, o in enumerate(rec.obl):
            res['obligations'] += 1
            occ = seen_labels.get(o[6], 0); seen_labels[o[6]] = occ + 1
            try:
                d = dec.decide(o)
            except fpsym.NonFinite as e:
                res['nonfinite_classes'] = res.get('nonfinite_classes', 0) + 1; res['obligations'] -= 1
                break
            except (fpsym.Inconclusive, fpsym.TooBig) as e:
                d = {'verdict': 'inconclusive', 'method': str(e), 'label': o[6], 'symbolic': True}
            res['methods'][d.get('method', '?')] = res['methods'].get(d.get('method', '?'), 0) + 1
            if d['verdict'] == 'holds':
                res['discharged'] += 1
                if d.get('symbolic'): res['nontrivial'] += 1
                if len(res['samples']) < 3 and d.get('symbolic'):
                    res['samples'].append({'config': cfg.name, 'path': k, 'obligation': d['label'], 'method': d['method'], 'residual_monomials': d.get('monomials'), 'degree': d.get('degree'), 'pc_atoms': len(rec.pc)})
            elif d['verdict'] == 'violated' and d['kind'] == 'nonconst':
                res['inconclusive'].append({'what': 'vacuous: witness expression does not depend on any symbol', 'label': o[6], 'path': k})
            elif d['verdict'] == 'violated':
                res['problems'].append({'kind': 'obl', 'label': o[6], 'occ': occ, 'okind': d['kind'], 'inputs': d.get('inputs', rec.inputs()), 'path': k, 'method': d['method'], 'ints': rec.d.get('ints')})
            else:
                res['inconclusive'].append({'what': 'solver', 'label': o[6], 'method': d.get('method'), 'path': k})
        if not first['done'] and not cfg.validate:
            first['done'] = True; res['translator_validated'] = None
        if not first['done']:
            first['done'] = True
            # translator validation: plain build on the same inputs must publish bit-identical concrete values
            prec, pinfo = fpsym.run_harness(plain, cfg.args, inputs, work, cfg.timeout, None, tag='tv')
            ok = prec is not None and [o[2] for o in prec.outs] == [o[2] for o in rec.outs] and [(o[3], o[4]) for o in prec.obl] == [(o[3], o[4]) for o in rec.obl] and prec.checks == rec.checks
            res['translator_validated'] = bool(ok)
            if not ok:
                res['inconclusive'].append({'what': 'translator validation failed: instrumented and plain builds disagree', 'path': k})

    try:
        ex.run(handle)
    except Exception as e:
        res['inconclusive'].append({'what': 'driver exception', 'detail': traceback.format_exc()[-2000:]})
    if ex.stats.get('cvc5_disagree', 0): res['inconclusive'].append({'what': 'z3 and cvc5 disagree on %d queries' % ex.stats['cvc5_disagree']})
    res['coverage_complete'] = ex.coverage_complete; res['bands'] = ex.bands; res['cover_unknown'] = ex.cover_unknown; res['infeasible_branches'] = ex.infeasible; res['diverged'] = ex.diverged; res['time_budget_hit'] = ex.budget_hit
    res['stats'] = ex.stats
    # replay of every problem on the plain (un-instrumented) build
    for p in res['problems']:
        prec, pinfo = fpsym.run_harness(plain, cfg.args, p['inputs'], work, cfg.timeout, None, tag='replay', replay_ints=p.get('ints'))
        pf = classify_fault(prec, pinfo)
        if p['kind'] == 'fault':
            p['confirmed'] = bool(pf) ; p['replay_observed'] = pf or 'no fault in plain build'
        elif pf:
            p['confirmed'] = True; p['replay_observed'] = pf
        elif prec is None:
            p['confirmed'] = False; p['replay_observed'] = 'no record'
        elif p['kind'] == 'check':
            fails = [l for c, l in prec.checks if not c and l == p['label']]
            p['confirmed'] = bool(fails); p['replay_observed'] = 'check fails' if fails else 'check passes'
        elif p.get('okind') == 'deriv':
            # central finite difference of the published value on the plain build
            def find(rec_):
                occ_ = 0
                for o in rec_.obl:
                    if o[6] == p['label']:
                        if occ_ == p['occ']: return o
                        occ_ += 1
                return None
            o0 = find(prec)
            if o0 is None: p['confirmed'] = False; p['replay_observed'] = 'obligation not reached on the plain build'
            else:
                sid = o0[7]; h = 1e-6; vals = []
                for sg in (1, -1):
                    inp = dict(p['inputs']); inp[sid] = inp.get(sid, prec.syms[sid][2]) + sg * h
                    r2, _ = fpsym.run_harness(plain, cfg.args, inp, work, cfg.timeout, None, tag='replayfd')
                    o2 = find(r2) if r2 is not None else None
                    vals.append(float.fromhex(o2[4]) if o2 is not None else float('nan'))
                fd = (vals[0] - vals[1]) / (2 * h); jac = float.fromhex(o0[3]); sc = float.fromhex(o0[5])
                p['confirmed'] = (fd == fd) and abs(fd - jac) > 1e-4 * max(1.0, abs(jac))   # finite-difference error is ~1e-9 here; sc is the solver-side tolerance scale, not used
                p['replay_observed'] = 'differentiate gives %r, central finite difference of evaluate gives %r' % (jac, fd)
        else:
            occ = 0; found = None
            for o in prec.obl:
                if o[6] == p['label']:
                    if occ == p['occ']: found = o; break
                    occ += 1
            if found is None:
                # different path: any obligation with that label failing counts
                cands = [o for o in prec.obl if o[6] == p['label']]
                p['confirmed'] = any(concrete_obl_fails(o, cfg.tol) for o in cands); p['replay_observed'] = 'label matched on a different path'
            else:
                p['confirmed'] = concrete_obl_fails(found, cfg.tol)
                p['replay_observed'] = 'a=%r b=%r scale=%r' % (float.fromhex(found[3]), float.fromhex(found[4]), float.fromhex(found[5]))
        p['inputs_hex'] = {str(k): float(v).hex() for k, v in p['inputs'].items()}
    shutil.rmtree(work, ignore_errors=True)
    res['wall'] = time.time() - t0
    res['max_rss_kb'] = resource.getrusage(resource.RUSAGE_CHILDREN).ru_maxrss
    return res


def load_known():
    p = os.path.join(VERIF, 'known_findings.json')
    if not os.path.exists(p): return []
    return json.load(open(p)).get('findings', [])


def match_known(prop, cfgname, prob, known):
    for k in known:
        if k.get('status', 'open') != 'open': continue
        if k['property'] != prop: continue
        if not re.search(k.get('config', '.*'), cfgname): continue
        if not re.search(k.get('label', '.*'), prob['label']): continue
        return k
    return None


def run_property(prop, configs, tier, seed, meta, kconfigs=()):
    """meta: dict(functions_encoded, bounds, assumptions, explanation, rule)"""
    t0 = time.time()
    os.makedirs(os.path.join(VERIF, 'evidence'), exist_ok=True)
    try:
        build.ensure_lib()
    except Exception as e:
        print('INCONCLUSIVE property=%s cannot build/encode the library: %s' % (prop, str(e)[-1500:]))
        write_evidence(prop, tier, seed, [], meta, time.time() - t0, 0, ['library build failed: ' + str(e)[-500:]], [])
        return 2
    jobs = min(build.JOBS, max(1, len(configs) + sum(getattr(k, 'slots', 1) for k in kconfigs)))
    results = []
    # every configuration runs in its own process under a hard wall-clock limit (a solver call that ignores its timeout
    # must not stall the check: the configuration is then reported as inconclusive)
    import multiprocessing as mp
    ctx = mp.get_context('fork')
    pending = list(configs) + list(kconfigs); running = []   # (process, conn, cfg, t_start, limit)
    def blank(c, why):
        return {'config': c.name, 'harness': c.harness, 'args': c.args, 'paths': 0, 'obligations': 0, 'discharged': 0, 'nontrivial': 0, 'checks': 0,
                'problems': [], 'inconclusive': [{'what': why}], 'assumed_away': 0, 'coverage_complete': False, 'samples': [], 'notes': {}, 'methods': {}, 'wall': 0, 'stats': {}}
    def worker(conn, c):
        try:
            conn.send(kengine.run_k(c) if isinstance(c, kengine.KConfig) else run_config(prop, c, tier, seed))
        except Exception as e:
            conn.send(blank(c, 'worker exception: %s' % str(e)[-500:]))
        conn.close()
    while pending or running:
        while pending and sum(getattr(x[2], 'slots', 1) for x in running) + getattr(pending[0], 'slots', 1) <= max(jobs, getattr(pending[0], 'slots', 1)):
            c = pending.pop(0); pc, cc = ctx.Pipe(duplex=False)
            pr = ctx.Process(target=worker, args=(cc, c)); pr.start(); cc.close()
            budget = c.time_budget_s if c.time_budget_s else (90 if tier == 'quick' else 600)
            running.append((pr, pc, c, time.time(), 3 * budget + 2 * c.timeout + 300))
        still = []
        for (pr, pc, c, t_start, limit) in running:
            r = None
            if pc.poll(0.02):
                try: r = pc.recv()
                except EOFError: r = blank(c, 'worker died without a result')
                pr.join(5)
            elif not pr.is_alive():
                r = blank(c, 'worker died without a result'); pr.join(1)
            elif time.time() - t_start > limit:
                pr.kill(); pr.join(5); r = blank(c, 'hard wall-clock limit of %d s exceeded (a solver call or the normal-form computation did not return)' % limit)
            if r is None: still.append((pr, pc, c, t_start, limit)); continue
            results.append(r)
            if os.environ.get('VERIF_VERBOSE'):
                print('  [%s] paths=%d obl=%d/%d checks=%d problems=%d inconcl=%d cover=%s %.1fs' % (r['config'], r['paths'], r['discharged'], r['obligations'], r['checks'], len(r['problems']), len(r['inconclusive']), r['coverage_complete'], r['wall']), flush=True)
        running = still
        if running and not pending: time.sleep(0.05)
    results.sort(key=lambda r: r['config'])
    known = load_known()
    violations = []; known_hit = {}; unconfirmed = []; inconcl = []
    for r in results:
        for p in r['problems']:
            if not p.get('confirmed'):
                unconfirmed.append((r, p)); continue
            k = match_known(prop, r['config'], p, known)
            if k: known_hit.setdefault(k['id'], (k, []))[1].append((r, p))
            else: violations.append((r, p))
        for i in r['inconclusive']: inconcl.append((r, i))
    for kid, (k, lst) in sorted(known_hit.items()):
        print('KNOWN-FINDING: property=%s %s [%s; re-derived on %d path classes, e.g. config %s]' % (prop, k['what'], kid, len(lst), lst[0][0]['config']))
    rdir = os.path.join(VERIF, 'replay', prop); os.makedirs(rdir, exist_ok=True)
    for f in os.listdir(rdir):
        if f.startswith(tier + '-'): os.remove(os.path.join(rdir, f))
    seen = set(); nviol = 0
    for r, p in violations:
        key = (r['config'], p['label'])
        if key in seen: continue
        seen.add(key); nviol += 1
        path = os.path.join(rdir, '%s-%d.json' % (tier, nviol))
        json.dump({'property': prop, 'harness': r['harness'], 'args': r['args'], 'config': r['config'], 'inputs_hex': p['inputs_hex'], 'problem': {k: v for k, v in p.items() if k not in ('inputs',)}}, open(path, 'w'), indent=1)
        print('VIOLATION property=%s replay=%s' % (prop, path))
        print('  config=%s %s: %s (%s)' % (r['config'], p['kind'], p['label'], p.get('replay_observed')))
    for r, p in unconfirmed[:10]:
        print('UNCONFIRMED property=%s config=%s %s: %s -- solver counterexample did not reproduce on the plain build (%s)' % (prop, r['config'], p['kind'], p['label'], p.get('replay_observed')))
    for r, i in inconcl[:10]:
        print('INCONCLUSIVE property=%s config=%s %s' % (prop, r['config'], json.dumps(i)[:600]))
    write_evidence(prop, tier, seed, results, meta, time.time() - t0, nviol, [], sorted(known_hit))
    tot = sum(r['obligations'] for r in results); dis = sum(r['discharged'] for r in results)
    print('%s %s: %d configurations, %d path classes, %d/%d obligations discharged, %d structural checks, %d violations, %d known findings, %d unconfirmed, %d inconclusive, %.1fs' % (
        prop, tier, len(results), sum(r['paths'] for r in results), dis, tot, sum(r['checks'] for r in results), nviol, len(known_hit), len(unconfirmed), len(inconcl), time.time() - t0))
    if nviol: return 1
    if unconfirmed or inconcl: return 2
    return 0


def write_evidence(prop, tier, seed, results, meta, wall, nviol, errors, known_ids):
    tot = sum(r['obligations'] for r in results); dis = sum(r['discharged'] for r in results)
    samples = []
    for r in results:
        samples += r['samples'][:1]
    samples = samples[:12]
    for r in results:
        for p in r['problems'][:1]:
            samples.append({'config': r['config'], 'counterexample': p['label'], 'inputs_hex': p.get('inputs_hex'), 'confirmed_on_plain_build': p.get('confirmed')})
    methods = {}
    for r in results:
        for k, v in r.get('methods', {}).items(): methods[k] = methods.get(k, 0) + v
    stats = {}
    for r in results:
        for k, v in r.get('stats', {}).items(): stats[k] = stats.get(k, 0) + v
    cov = {
        'explanation': meta.get('explanation', ''),
        'functions_encoded': meta.get('functions_encoded', []),
        'bounds': meta.get('bounds', {}),
        'rule': meta.get('rule', 'one case = one obligation decided by the solver for all inputs of one path class of one configuration; non-trivial = at least one operand is symbolic (depends on the quantified inputs)'),
        'evaluations': max(1, tot + sum(r['checks'] for r in results)),
        'distinct_nontrivial': sum(r['nontrivial'] for r in results),
        'obligations': tot, 'discharged': dis,
        'structural_checks': sum(r['checks'] for r in results),
        'configurations': len(results), 'path_classes': sum(r['paths'] for r in results),
        'states': max(1, sum(r['paths'] for r in results)), 'transitions': max(1, sum(r.get('stats', {}).get('runs', 0) for r in results)),
        'coverage_complete_configs': sum(1 for r in results if r['coverage_complete']),
        'classes_assumed_away': sum(r['assumed_away'] for r in results),
        'classes_outside_claim_nonfinite': sum(r.get('nonfinite_classes', 0) for r in results),
        'rounding_boundary_bands': sum(r.get('bands', 0) for r in results),
        'queries_discharged': stats.get('queries', 0), 'solver_time_s': round(stats.get('solver_s', 0.0), 2),
        'native_runs': stats.get('runs', 0), 'native_run_time_s': round(stats.get('run_s', 0.0), 2),
        'decision_methods': methods,
        'second_solver_cvc5': {'queries': stats.get('cvc5_queries', 0), 'agree': stats.get('cvc5_agree', 0), 'disagree': stats.get('cvc5_disagree', 0), 'no_answer': stats.get('cvc5_unknown', 0)},
        'translator_validated_configs': sum(1 for r in results if r.get('translator_validated')),
        'traces_validated_against_impl': sum(1 for r in results if r.get('translator_validated')),
        'max_rss_kb': max([r.get('max_rss_kb', 0) for r in results] + [0]),
        'checker_cmd': './check %s --tier %s' % (prop, tier),
        'trusted_base': ['clang-14 -O0 front end', 'fpsym pass+runtime (validated per configuration against the plain build)', 'z3 %s' % fpsym.z3.get_version_string(), 'normal-form simplifier (exact rationals)'],
        'per_configuration': [{'config': r['config'], 'paths': r['paths'], 'coverage_complete': r['coverage_complete'], 'obligations': r['obligations'], 'discharged': r['discharged'],
                               'checks': r['checks'], 'symbols': r.get('symbols'), 'max_pc_atoms': r.get('max_atoms'), 'wall_s': round(r.get('wall', 0), 2), 'notes': r.get('notes', {}),
                               'problems': [{'kind': p['kind'], 'label': p['label'], 'confirmed': p.get('confirmed')} for p in r['problems'][:5]],
                               'inconclusive': r['inconclusive'][:3]} for r in results],
        'known_findings_rederived': known_ids,
        'samples': samples or [{'note': 'no symbolic obligation decided'}],
        'errors': errors,
    }
    cov.update(meta.get('extra_coverage', {}))
    ev = {'property_id': prop, 'tier': tier, 'seed': int(seed), 'level': meta.get('level', 'other'), 'coverage': cov,
          'assumptions': meta.get('assumptions', []), 'wall_s': round(wall, 2), 'violations': nviol}
    p = os.path.join(VERIF, 'evidence', prop + '.json')
    json.dump(ev, open(p + '.tmp', 'w'), indent=1); os.replace(p + '.tmp', p)


def replay(path):
    d = json.load(open(path))
    exe, plain, _ = build.ensure_harness(d['harness'])
    inputs = {int(k): float.fromhex(v) for k, v in d['inputs_hex'].items()}
    work = os.path.join(build.BUILD, 'work', 'replay'); os.makedirs(work, exist_ok=True)
    rec, info = fpsym.run_harness(plain, d['args'], inputs, work, 120, None, tag='replay')
    print('replay of', path, 'on the plain (un-instrumented) build of', d['harness'], d['args'])
    f = classify_fault(rec, info)
    if f: print('  observed:', f); print(info['stderr'][-1500:])
    if rec is not None:
        for c, l in rec.checks:
            if not c: print('  structural check fails:', l)
        for o in rec.obl:
            if concrete_obl_fails(o, fpsym.TOL): print('  obligation fails: %s a=%r b=%r' % (o[6], float.fromhex(o[3]), float.fromhex(o[4])))
    return 0
