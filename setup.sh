#!/bin/bash
# offline setup: builds the engines (LLVM pass, runtime, ir2c) and the instrumented library from /repo's working tree
set -e
cd "$(dirname "$0")"
mkdir -p build evidence replay
python3-vt lib/build.py
